#!/bin/sh
# validates MANIFEST.json and every evidence file against the schemas (tooling venv has jsonschema)
python3-vt - <<'PY'
import json, glob, jsonschema
m = json.load(open('/root/.vp/MANIFEST.schema.json')); e = json.load(open('/root/.vp/EVIDENCE.schema.json'))
jsonschema.validate(json.load(open('MANIFEST.json')), m); print('MANIFEST ok')
for f in sorted(glob.glob('evidence/*.json')):
    jsonschema.validate(json.load(open(f)), e); print(f, 'ok')
PY
