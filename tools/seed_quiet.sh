#!/bin/sh
# quietness sweep: every check at several VERIF_SEED values (evidence redirected, committed evidence untouched)
cd /verif
for s in "$@"; do
  ls vf/checks/c*.py | sed 's/.*\/c\([0-9]*\).py/C\1/' | xargs -P 6 -I{} sh -c "VERIF_SEED=$s VERIF_EVIDENCE_DIR=/tmp/quiet-ev-$s PYTHONHASHSEED=0 /venv/bin/python -m vf.run {} --tier quick > /tmp/quiet_{}_$s.log 2>&1; r=\$?; [ \$r -ne 0 ] && echo seed=$s {} exit=\$r \$(grep -v '^VIOLATION' /tmp/quiet_{}_$s.log | head -2 | cut -c1-300)"
  echo "seed $s done"
  rm -rf /tmp/quiet-ev-$s
done
