#!/bin/sh
# tools/confirm_wave2.sh C04 [extra checks...]  -> confirms /tmp/wt3/C04 variants A and B
P=$1; shift
for V in A B; do
  if [ -f /tmp/wt3/$P/patch_$V.diff ]; then
    PATCH_NAME=patch_$V.diff DEMO_NAME=demo_$V.py META_NAME=meta_$V.json /verif/tools/confirm_seed.py /tmp/wt3/$P ${P}-3$V $P $P "$@" 2>&1 | python3 -c "
import sys, json, re
t=sys.stdin.read()
try:
    j=json.loads(t[t.index('{'):])
    print('$P-3$V', 'confirmed=%s' % j.get('confirmed'), 'demo0=%s demo1=%s tests=%s' % (j.get('demo_exit_without_change'), j.get('demo_exit_with_change'), j.get('tests_with_change')), {k:v['verdict'] for k,v in j.get('checks',{}).items()})
    for k,v in j.get('checks',{}).items():
        for f in v['first'][:1]: print('    ', k, f[:220])
except Exception as e:
    print('$P-3$V PARSE-FAIL', t[-500:])
"
  else echo "$P-3$V: no patch_$V.diff"; fi
done
