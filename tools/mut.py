#!/venv/bin/python
"""Sensitivity helper: apply a textual mutation (or a patch file) to a scratch copy of /repo, run the pinned
tests on the copy, run the given checks against the copy (VERIF_REPO), delete the copy.

  tools/mut.py C01 C02 -- pykdebugparser/kevent.py 'OLD' 'NEW'      (first occurrence; OLD must exist)
  tools/mut.py C01 -- --patch /path/to/patch.diff
"""
import os, shutil, subprocess, sys, tempfile

args = sys.argv[1:]
i = args.index('--')
pids, rest = args[:i], args[i + 1:]
tmp = tempfile.mkdtemp(prefix='vf-mut-')
copy = os.path.join(tmp, 'repo')
try:
    shutil.copytree('/repo', copy, ignore=shutil.ignore_patterns('.git', '__pycache__', 'gifs'))
    if rest[0] == '--patch':
        subprocess.run(['patch', '-p1', '-s', '-i', rest[1]], cwd=copy, check=True)
    else:
        while rest:
            f, old, new = rest[:3]; rest = rest[3:]
            p = os.path.join(copy, f)
            s = open(p).read()
            if old not in s:
                print('MUTATION SITE NOT FOUND', f, old); sys.exit(3)
            open(p, 'w').write(s.replace(old, new, 1))
    env = dict(os.environ, PYTHONPATH=copy)
    r = subprocess.run(['/venv/bin/python', '-m', 'pytest', '-q', '-x', '-p', 'no:cacheprovider', '--timeout=900'],
                       cwd=copy, env=env, capture_output=True, text=True)
    print('pytest on mutant:', r.stdout.strip().splitlines()[-1] if r.stdout.strip() else r.stderr[-300:])
    for pid in pids:
        env = dict(os.environ, VERIF_REPO=copy, PYTHONHASHSEED='0', VERIF_EVIDENCE_DIR=os.path.join(tmp, 'ev'))
        tier = os.environ.get('MUT_TIER', 'quick')
        r = subprocess.run(['/venv/bin/python', '-m', 'vf.run', pid, '--tier', tier], cwd='/verif', env=env,
                           capture_output=True, text=True)
        lines = [l for l in r.stdout.splitlines() if 'VIOLATION' in l or 'HARNESS' in l or l.startswith(pid)]
        sig = [l for l in r.stdout.splitlines() if ': ' in l and 'VIOLATION' not in l and not l.startswith(pid)][:2]
        print(f'{pid}: exit={r.returncode}', 'CAUGHT' if r.returncode == 1 else ('MISSED' if r.returncode == 0 else 'HARNESS'),
              '|', ' ; '.join(s[:200] for s in sig))
        if r.returncode == 2:
            print(r.stdout[-1500:], r.stderr[-1500:])
finally:
    shutil.rmtree(tmp, ignore_errors=True)
