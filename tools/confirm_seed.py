#!/venv/bin/python
"""Confirm a sub-agent's seeded change in a fresh scratch worktree of /repo (current HEAD), run checks against it,
and keep it under /verif/seeded/<name>/.

  tools/confirm_seed.py <srcdir> <name> <PROP> [CHECK ...]     e.g. tools/confirm_seed.py /tmp/wt/C01 C01 C01
  env BASE_DIFF=<file>: applied first (not part of the seeded change)
"""
import json, os, shutil, subprocess, sys, glob

src, name, prop, *checks = sys.argv[1:]
checks = checks or [prop]
wt = f'/tmp/cs-{name}'
subprocess.run(['git', '-C', '/repo', 'worktree', 'remove', '--force', wt], capture_output=True)
subprocess.run(['git', '-C', '/repo', 'worktree', 'add', '-q', '--detach', wt, 'HEAD'], check=True)
res = {'repo_head': subprocess.run(['git', '-C', '/repo', 'rev-parse', '--short', 'HEAD'], capture_output=True, text=True).stdout.strip()}
try:
    env = dict(os.environ, PYTHONPATH=wt)
    demo = os.path.join(src, os.environ['DEMO_NAME']) if os.environ.get('DEMO_NAME') else sorted(glob.glob(os.path.join(src, 'demo_*.py')))[0]
    shutil.copy(demo, wt)
    dn = os.path.basename(demo)
    if os.environ.get('BASE_DIFF'):
        subprocess.run(['git', '-C', wt, 'apply', os.environ['BASE_DIFF']], check=True)
    r0 = subprocess.run(['/venv/bin/python', dn], cwd=wt, env=env, capture_output=True, text=True, timeout=600)
    res['demo_exit_without_change'] = r0.returncode
    a = subprocess.run(['git', '-C', wt, 'apply', '-3', os.path.join(src, os.environ.get('PATCH_NAME', 'patch.diff'))], capture_output=True, text=True)
    if a.returncode:
        print('PATCH DOES NOT APPLY', a.stderr); res['applies'] = False
    else:
        res['applies'] = True
        t = subprocess.run(['/venv/bin/python', '-m', 'pytest', '-q', '-p', 'no:cacheprovider', '--timeout=900', 'tests'], cwd=wt, env=env,
                           capture_output=True, text=True)
        res['tests_with_change'] = t.stdout.strip().splitlines()[-1] if t.stdout.strip() else t.stderr[-200:]
        r1 = subprocess.run(['/venv/bin/python', dn], cwd=wt, env=env, capture_output=True, text=True, timeout=600)
        res['demo_exit_with_change'] = r1.returncode
        res['demo_output_with_change'] = (r1.stdout + r1.stderr)[-600:]
        res['checks'] = {}
        for c in checks:
            e2 = dict(os.environ, VERIF_REPO=wt, PYTHONHASHSEED='0', VERIF_EVIDENCE_DIR=wt + '-ev')
            r = subprocess.run(['/venv/bin/python', '-m', 'vf.run', c, '--tier', os.environ.get('MUT_TIER', 'quick')], cwd='/verif', env=e2,
                               capture_output=True, text=True)
            sig = [l for l in r.stdout.splitlines() if ': ' in l and 'VIOLATION' not in l and 'KNOWN-FINDING' not in l and not l.startswith(c + ' ')][:2]
            res['checks'][c] = {'exit': r.returncode, 'verdict': {0: 'MISSED', 1: 'CAUGHT'}.get(r.returncode, 'HARNESS'),
                                'first': [s[:300] for s in sig]}
            if r.returncode == 2:
                print(r.stdout[-2000:])
    ok = res.get('applies') and res['demo_exit_without_change'] == 0 and res.get('demo_exit_with_change', 0) != 0 \
        and ' passed' in res.get('tests_with_change', '') and 'failed' not in res.get('tests_with_change', '')
    res['confirmed'] = bool(ok)
    print(json.dumps(res, indent=1))
    if ok:
        d = f'/verif/seeded/{name}'
        os.makedirs(d, exist_ok=True)
        shutil.copy(os.path.join(src, os.environ.get('PATCH_NAME', 'patch.diff')), os.path.join(d, 'patch.diff'))
        shutil.copy(demo, d)
        if os.environ.get('BASE_DIFF'):
            shutil.copy(os.environ['BASE_DIFF'], os.path.join(d, 'base.diff'))
        meta = {}
        mp = os.path.join(src, os.environ.get('META_NAME', 'meta.json'))
        if os.path.exists(mp):
            try: meta = json.load(open(mp))
            except Exception: meta = {'raw': open(mp).read()}
        meta['property'] = prop
        meta['confirmed_by_main_session'] = res
        json.dump(meta, open(os.path.join(d, 'meta.json'), 'w'), indent=1)
finally:
    subprocess.run(['git', '-C', '/repo', 'worktree', 'remove', '--force', wt], capture_output=True)
    shutil.rmtree(wt + '-ev', ignore_errors=True)
