#!/venv/bin/python
"""Systematic single-site mutation sweep: how many small source mutations that the pinned tests do NOT notice are
reported by the checks of the properties anchored in that file.

  tools/mutscore.py [--per-file N] [--jobs J] [--seed S] [--only file-substring]

Operators (one site per mutant): argument index shifted (args[k] -> args[k+1 mod 4]), events[0] <-> events[-1],
comparison flipped (== != < <= > >=), and <-> or, `if not` -> `if`, integer literal + 1 (outside the big constant
tables), slice/index literal shifted. Mutants that do not import or that the pinned test-suite kills are discarded
(the question is what the tests cannot see). Output: per file killed / survived, and the list of survivors.
"""
import json, os, random, re, shutil, subprocess, sys, tempfile
from concurrent.futures import ThreadPoolExecutor

VROOT = os.path.dirname(os.path.dirname(os.path.abspath(__file__)))
REPO = '/repo'
FILE_CHECKS = {
    'pykdebugparser/kevent.py': ['C01', 'C02'],
    'pykdebugparser/kd_buf_parser.py': ['C02', 'C03', 'C06'],
    'pykdebugparser/traces_parser.py': ['C04', 'C05', 'C07', 'C08', 'C20', 'C09'],
    'pykdebugparser/trace_handlers/trace.py': ['C05', 'C07', 'C08', 'C14'],
    'pykdebugparser/trace_handlers/fsystem.py': ['C08', 'C07'],
    'pykdebugparser/trace_handlers/dyld.py': ['C07', 'C20', 'C11', 'C15'],
    'pykdebugparser/trace_handlers/perf.py': ['C20', 'C15', 'C11'],
    'pykdebugparser/trace_handlers/mach.py': ['C09', 'C11', 'C20', 'C07', 'C14'],
    'pykdebugparser/trace_handlers/bsd.py': ['C09', 'C10', 'C11', 'C17', 'C18', 'C08'],
    'pykdebugparser/callstacks_parser.py': ['C15'],
    'pykdebugparser/pykdebugparser.py': ['C12', 'C13', 'C14', 'C19', 'C06'],
    'pykdebugparser/os_log_event.py': ['C16', 'C03'],
    'pykdebugparser/trace_codes.py': ['C19'],
    'pykdebugparser/__main__.py': ['C06', 'C12', 'C13', 'C14', 'C03'],
}
OPS = [
    ('arg-index', re.compile(r'args\[(\d)\]'), lambda m: f'args[{(int(m.group(1)) + 1) % 4}]'),
    ('values-index', re.compile(r'values\[(\d)\]'), lambda m: f'values[{(int(m.group(1)) + 1) % 4}]'),
    ('first-last', re.compile(r'events\[0\]'), lambda m: 'events[-1]'),
    ('last-first', re.compile(r'events\[-1\]'), lambda m: 'events[0]'),
    ('eq', re.compile(r' == '), lambda m: ' != '), ('ne', re.compile(r' != '), lambda m: ' == '),
    ('lt', re.compile(r' < '), lambda m: ' <= '), ('le', re.compile(r' <= '), lambda m: ' < '),
    ('gt', re.compile(r' > '), lambda m: ' >= '), ('ge', re.compile(r' >= '), lambda m: ' > '),
    ('and', re.compile(r' and '), lambda m: ' or '), ('or', re.compile(r' or '), lambda m: ' and '),
    ('not', re.compile(r'\bif not '), lambda m: 'if '),
    ('int+1', re.compile(r'(?<![\w.\[x])(\d{1,3})(?![\w.\]x])'), lambda m: str(int(m.group(1)) + 1)),
    ('hex-bit', re.compile(r'0x([0-9a-fA-F]{1,8})\b'), lambda m: hex(int(m.group(1), 16) ^ (1 << (len(m.group(1)) * 2)) if len(m.group(1)) < 8 else int(m.group(1), 16) ^ 0x10)),
]


def sites(path):
    out = []
    lines = open(os.path.join(REPO, path)).read().split('\n')
    in_doc = False
    for ln, line in enumerate(lines):
        st = line.strip()
        if st.startswith('"""') or st.startswith("'''"):
            in_doc = not in_doc if st.count('"""') + st.count("'''") == 1 else in_doc
            continue
        if in_doc or st.startswith('#') or st.startswith('import ') or st.startswith('from ') or not st:
            continue
        for name, rx, fn in OPS:
            for k, m in enumerate(rx.finditer(line)):
                if name in ('int+1', 'hex-bit') and (re.match(r"^\s+\d+: '", line) or re.match(r'^\s+[A-Za-z_0-9]+ = (0x[0-9a-fA-F]+|\d+|0o\d+)$', line)) and name == 'int+1':
                    # plain table rows are mutated by 'hex-bit' / handled once: keep one in five to bound the count
                    if (ln + k) % 5:
                        continue
                out.append((path, ln, name, m.start(), m.end(), fn(m)))
    return out


def run_mutant(job):
    path, ln, name, a, b, repl = job
    tmp = tempfile.mkdtemp(prefix='vf-ms-')
    copy = os.path.join(tmp, 'repo')
    try:
        shutil.copytree(REPO, copy, ignore=shutil.ignore_patterns('.git', '__pycache__', 'gifs'))
        fp = os.path.join(copy, path)
        lines = open(fp).read().split('\n')
        orig = lines[ln]
        lines[ln] = orig[:a] + repl + orig[b:]
        open(fp, 'w').write('\n'.join(lines))
        env = dict(os.environ, PYTHONPATH=copy)
        imp = subprocess.run(['/venv/bin/python', '-c', 'import pykdebugparser.pykdebugparser, pykdebugparser.__main__'], cwd=copy, env=env,
                             capture_output=True, text=True)
        if imp.returncode:
            return job, 'no-import', None
        t = subprocess.run(['/venv/bin/python', '-m', 'pytest', '-q', '-x', '-p', 'no:cacheprovider', 'tests'], cwd=copy, env=env,
                           capture_output=True, text=True, timeout=600)
        if t.returncode:
            return job, 'killed-by-pinned-tests', None
        for c in FILE_CHECKS[path]:
            env2 = dict(os.environ, VERIF_REPO=copy, PYTHONHASHSEED='0', VERIF_EVIDENCE_DIR=os.path.join(tmp, 'ev'))
            r = subprocess.run(['/venv/bin/python', '-m', 'vf.run', c, '--tier', 'quick'], cwd=VROOT, env=env2, capture_output=True, text=True)
            if r.returncode == 1:
                return job, 'killed', c
            if r.returncode == 2:
                return job, 'harness-error', c + ': ' + r.stdout[-300:]
        return job, 'survived', orig.strip()[:160] + '   =>   ' + lines[ln].strip()[:160]
    except subprocess.TimeoutExpired:
        return job, 'timeout', None
    finally:
        shutil.rmtree(tmp, ignore_errors=True)


def main():
    a = sys.argv[1:]
    per = int(a[a.index('--per-file') + 1]) if '--per-file' in a else 25
    jobs = int(a[a.index('--jobs') + 1]) if '--jobs' in a else 6
    seed = int(a[a.index('--seed') + 1]) if '--seed' in a else 1
    only = a[a.index('--only') + 1] if '--only' in a else ''
    rnd = random.Random(seed)
    todo = []
    for path in FILE_CHECKS:
        if only and only not in path:
            continue
        s = sites(path)
        rnd.shuffle(s)
        n = per * (6 if path.endswith('bsd.py') else 2 if path.endswith('mach.py') else 1)
        todo += s[:n]
    print(f'{len(todo)} mutants', flush=True)
    stats = {}
    survivors, harness = [], []
    with ThreadPoolExecutor(max_workers=jobs) as ex:
        for job, verdict, info in ex.map(run_mutant, todo):
            st = stats.setdefault(job[0], {})
            st[verdict] = st.get(verdict, 0) + 1
            if verdict == 'survived':
                survivors.append((job[0], job[1] + 1, job[2], info))
                print('SURVIVED', job[0], job[1] + 1, job[2], info, flush=True)
            if verdict == 'harness-error':
                harness.append((job[0], job[1] + 1, job[2], info))
                print('HARNESS', job[0], job[1] + 1, job[2], info, flush=True)
    print(json.dumps(stats, indent=1))
    tot = {}
    for st in stats.values():
        for k, v in st.items():
            tot[k] = tot.get(k, 0) + v
    print('TOTAL', tot)


if __name__ == '__main__':
    main()
