#!/bin/sh
# tools/confirm_wave9.sh W01 ...  -> confirms /tmp/wt12/W01 variants A, B, C (property taken from meta_X.json)
for W in "$@"; do
  for V in A B; do
    if [ -f /tmp/wt12/$W/patch_$V.diff ] && [ -f /tmp/wt12/$W/meta_$V.json ]; then
      P=$(python3 -c "import json;print(json.load(open('/tmp/wt12/$W/meta_$V.json'))['property'])")
      N=${P}-9${W}${V}
      PATCH_NAME=patch_$V.diff DEMO_NAME=demo_$V.py META_NAME=meta_$V.json /verif/tools/confirm_seed.py /tmp/wt12/$W $N $P $P 2>&1 | python3 -c "
import sys, json
t=sys.stdin.read()
try:
    j=json.loads(t[t.index('{'):])
    print('$N', 'confirmed=%s' % j.get('confirmed'), 'demo0=%s demo1=%s tests=%s' % (j.get('demo_exit_without_change'), j.get('demo_exit_with_change'), j.get('tests_with_change')), {k:v['verdict'] for k,v in j.get('checks',{}).items()})
    for k,v in j.get('checks',{}).items():
        for f in v['first'][:1]: print('    ', k, f[:220])
except Exception as e:
    print('$N PARSE-FAIL', t[-400:])
"
    else echo "$W $V: missing files"; fi
  done
done
