#!/venv/bin/python
"""For every kept seeded change: apply it to a scratch worktree of /repo HEAD, run its property's check (quick tier,
or MUT_TIER) and optionally ALL checks (--all), record the verdicts in seeded/<name>/meta.json and print a table.

  tools/seed_sweep.py [--all] [name ...]
"""
import json, os, subprocess, sys, shutil, glob
from concurrent.futures import ThreadPoolExecutor

VROOT = os.path.dirname(os.path.dirname(os.path.abspath(__file__)))
args = sys.argv[1:]
run_all = '--all' in args
names = [a for a in args if not a.startswith('--')] or sorted(os.listdir(f'{VROOT}/seeded'))
ALL = sorted(os.path.basename(p)[:-3].upper() for p in glob.glob(f'{VROOT}/vf/checks/c*.py'))
head = subprocess.run(['git', '-C', '/repo', 'rev-parse', '--short', 'HEAD'], capture_output=True, text=True).stdout.strip()


def one(name):
    d = f'{VROOT}/seeded/{name}'
    meta = json.load(open(f'{d}/meta.json'))
    prop = meta['property']
    wt = f'/tmp/sweep-{os.getpid()}-{name}'
    subprocess.run(['git', '-C', '/repo', 'worktree', 'remove', '--force', wt], capture_output=True)
    subprocess.run(['git', '-C', '/repo', 'worktree', 'add', '-q', '--detach', wt, 'HEAD'], check=True)
    out = {'repo_head': head}
    try:
        a = subprocess.run(['git', '-C', wt, 'apply', '-3', f'{d}/patch.diff'], capture_output=True, text=True)
        if a.returncode or 'with conflicts' in a.stderr:
            out['applies'] = False
            return name, prop, out
        out['applies'] = True
        ev = f'/tmp/sweep-ev-{os.getpid()}-{name}'
        for c in (ALL if run_all else [prop]):
            env = dict(os.environ, VERIF_REPO=wt, PYTHONHASHSEED='0', VERIF_EVIDENCE_DIR=ev)
            r = subprocess.run(['/venv/bin/python', '-m', 'vf.run', c, '--tier', os.environ.get('MUT_TIER', 'quick')], cwd=VROOT,
                               env=env, capture_output=True, text=True)
            sig = [l for l in r.stdout.splitlines() if ': ' in l and 'VIOLATION' not in l and 'KNOWN-FINDING' not in l and not l.startswith(c + ' ')]
            out[c] = {'verdict': {0: 'missed', 1: 'CAUGHT'}.get(r.returncode, 'harness-error'), 'first': [s[:240] for s in sig[:2]]}
        shutil.rmtree(ev, ignore_errors=True)
    finally:
        subprocess.run(['git', '-C', '/repo', 'worktree', 'remove', '--force', wt], capture_output=True)
    meta['sweep'] = out
    json.dump(meta, open(f'{d}/meta.json', 'w'), indent=1)
    return name, prop, out


with ThreadPoolExecutor(max_workers=int(os.environ.get('SWEEP_JOBS', '4'))) as ex:
    results = list(ex.map(one, names))
print('| seeded change | property | own check | other checks that also catch it |')
print('|---|---|---|---|')
for name, prop, out in results:
    if not out.get('applies'):
        print(f'| {name} | {prop} | patch does not apply at {head} | |')
        continue
    others = [c for c in ALL if c != prop and out.get(c, {}).get('verdict') == 'CAUGHT']
    print(f"| {name} | {prop} | {out.get(prop, {}).get('verdict')} | {' '.join(others)} |")
