#!/venv/bin/python
"""Behaviour-preserving changes (sub-agent refactorings): every check must stay QUIET on them.

  tools/benign_sweep.py <srcdir> [<srcdir> ...]      srcdir holds patch_A.diff / note_A.txt ...
Keeps each change under benign/<Rxx-X>/ with the verdicts; prints every check that raised an alarm.
"""
import glob, json, os, shutil, subprocess, sys
from concurrent.futures import ThreadPoolExecutor

VROOT = os.path.dirname(os.path.dirname(os.path.abspath(__file__)))
ALL = sorted(os.path.basename(p)[:-3].upper() for p in glob.glob(f'{VROOT}/vf/checks/c*.py'))
jobs = []
for src in sys.argv[1:]:
    if os.path.exists(os.path.join(src, 'patch.diff')):      # a kept change (benign/<name>/): re-run it on the current tree
        jobs.append((os.path.basename(src.rstrip('/')), os.path.join(src, 'patch.diff'), os.path.join(src, 'note.txt')))
        continue
    for p in sorted(glob.glob(os.path.join(src, 'patch_*.diff'))):
        v = os.path.basename(p)[6:-5]
        jobs.append((os.path.basename(src.rstrip('/')) + '-' + v, p, os.path.join(src, f'note_{v}.txt')))


def one(job):
    name, patch, note = job
    wt = f'/tmp/benign-{os.getpid()}-{name}'
    subprocess.run(['git', '-C', '/repo', 'worktree', 'remove', '--force', wt], capture_output=True)
    subprocess.run(['git', '-C', '/repo', 'worktree', 'add', '-q', '--detach', wt, 'HEAD'], check=True)
    out = {}
    try:
        a = subprocess.run(['git', '-C', wt, 'apply', patch], capture_output=True, text=True)
        if a.returncode:
            return name, {'applies': False, 'err': a.stderr[-300:]}
        t = subprocess.run(['/venv/bin/python', '-m', 'pytest', '-q', '-p', 'no:cacheprovider', 'tests'], cwd=wt,
                           env=dict(os.environ, PYTHONPATH=wt), capture_output=True, text=True)
        out['tests'] = t.stdout.strip().splitlines()[-1] if t.stdout.strip() else t.stderr[-200:]
        for c in ALL:
            env = dict(os.environ, VERIF_REPO=wt, PYTHONHASHSEED='0', VERIF_EVIDENCE_DIR=wt + '-ev')
            r = subprocess.run(['/venv/bin/python', '-m', 'vf.run', c, '--tier', 'quick'], cwd=VROOT, env=env, capture_output=True, text=True)
            if r.returncode != 0:
                sig = [l for l in r.stdout.splitlines() if ': ' in l and 'VIOLATION' not in l and 'KNOWN-FINDING' not in l and not l.startswith(c + ' ')]
                out[c] = {'exit': r.returncode, 'first': [s[:400] for s in sig[:3]] or [r.stdout[-400:]]}
    finally:
        subprocess.run(['git', '-C', '/repo', 'worktree', 'remove', '--force', wt], capture_output=True)
        shutil.rmtree(wt + '-ev', ignore_errors=True)
    d = f'{VROOT}/benign/{name}'
    os.makedirs(d, exist_ok=True)
    if os.path.abspath(patch) != os.path.abspath(f'{d}/patch.diff'):
        shutil.copy(patch, f'{d}/patch.diff')
        if os.path.exists(note):
            shutil.copy(note, f'{d}/note.txt')
    json.dump({'repo_head': subprocess.run(['git', '-C', '/repo', 'rev-parse', '--short', 'HEAD'], capture_output=True, text=True).stdout.strip(),
               'alarms': out}, open(f'{d}/result.json', 'w'), indent=1)
    return name, out


with ThreadPoolExecutor(max_workers=int(os.environ.get('SWEEP_JOBS', '3'))) as ex:
    for name, out in ex.map(one, jobs):
        alarms = {k: v for k, v in out.items() if k.startswith('C')}
        print(name, 'tests:', out.get('tests', out), 'ALARMS:' if alarms else 'quiet', json.dumps(alarms)[:1500] if alarms else '')
