#!/venv/bin/python
"""Which source lines of pykdebugparser do the checks actually execute?  (generator-reach measurement, tooling only)

  tools/linecov.py [--tier quick] [C01 C02 ...]      -> prints, per source file, the executable lines no check reached

Every check runs in its own process under sys.monitoring (LINE events of files below <repo>/pykdebugparser); evidence is
redirected (VERIF_EVIDENCE_DIR) so the committed evidence is untouched. Lines only executed at import time count as
reached. The output is a to-do list for generators: an unreached line inside a decoder means no generated case gets there.
"""
import glob, json, os, subprocess, sys, tempfile

VROOT = os.path.dirname(os.path.dirname(os.path.abspath(__file__)))
REPO = os.environ.get('VERIF_REPO', '/repo')

CHILD = r'''
import os, sys, json
sys.argv = ['vf.run', sys.argv[1], '--tier', sys.argv[2]]
out = sys.argv.pop() if False else os.environ['LINECOV_OUT']
root = os.path.join(os.path.realpath(os.environ.get('VERIF_REPO', '/repo')), 'pykdebugparser') + os.sep
hits = set()
mon = sys.monitoring
TOOL = mon.COVERAGE_ID
mon.use_tool_id(TOOL, 'linecov')
def on_line(code, line):
    fn = code.co_filename
    if fn.startswith(root):
        hits.add((fn[len(root):], line))
    return mon.DISABLE
mon.register_callback(TOOL, mon.events.LINE, on_line)
mon.set_events(TOOL, mon.events.LINE)
from vf import run
rc = run.main()
mon.set_events(TOOL, 0)
json.dump(sorted(hits), open(out, 'w'))
sys.exit(rc)
'''


def executable_lines(path):
    src = open(path).read()
    code = compile(src, path, 'exec')
    lines = set()
    stack = [code]
    while stack:
        c = stack.pop()
        for _, _, ln in c.co_lines():
            if ln:
                lines.add(ln)
        stack += [k for k in c.co_consts if hasattr(k, 'co_lines')]
    return lines, src.split('\n')


def main():
    a = sys.argv[1:]
    tier = a[a.index('--tier') + 1] if '--tier' in a else 'quick'
    ids = [x for x in a if x.startswith('C')] or sorted(os.path.basename(p)[:-3].upper() for p in glob.glob(f'{VROOT}/vf/checks/c*.py'))
    tmp = tempfile.mkdtemp(prefix='vf-cov-')
    procs = []
    for c in ids:
        env = dict(os.environ, PYTHONHASHSEED='0', VERIF_EVIDENCE_DIR=os.path.join(tmp, 'ev'), LINECOV_OUT=os.path.join(tmp, c + '.json'))
        procs.append((c, subprocess.Popen(['/venv/bin/python', '-c', CHILD, c, tier], cwd=VROOT, env=env, stdout=subprocess.PIPE, stderr=subprocess.STDOUT, text=True)))
    per = {}
    for c, p in procs:
        out, _ = p.communicate()
        if p.returncode:
            print(c, 'exit', p.returncode, out[-300:])
        try:
            per[c] = {tuple(x) for x in json.load(open(os.path.join(tmp, c + '.json')))}
        except Exception as e:  # noqa
            print(c, 'no coverage file', e)
            per[c] = set()
    allhits = set().union(*per.values())
    root = os.path.join(os.path.realpath(REPO), 'pykdebugparser')
    tot_e = tot_h = 0
    for path in sorted(glob.glob(root + '/**/*.py', recursive=True)):
        rel = path[len(root) + 1:]
        ex, src = executable_lines(path)
        hit = {ln for f, ln in allhits if f == rel}
        miss = sorted(ex - hit)
        tot_e += len(ex)
        tot_h += len(ex & hit)
        print(f'== {rel}: {len(ex & hit)}/{len(ex)} executable lines reached')
        for ln in miss:
            print(f'   {ln:5d}: {src[ln - 1].rstrip()[:150]}')
    print(f'TOTAL {tot_h}/{tot_e}')
    import shutil
    shutil.rmtree(tmp, ignore_errors=True)


if __name__ == '__main__':
    main()
