#!/bin/sh
# run every registered check at the given tier (default quick) in parallel and validate the evidence
TIER=${1:-quick}
cd /verif
P=${2:-8}
ls vf/checks/c*.py | sed 's/.*\/c\([0-9]*\).py/C\1/' | xargs -P $P -I{} sh -c "PYTHONHASHSEED=0 /venv/bin/python -m vf.run {} --tier $TIER > /tmp/runall_{}.log 2>&1; echo {} exit=\$? \$(tail -1 /tmp/runall_{}.log)"
./validate.sh 2>&1 | grep -v "ok$"
