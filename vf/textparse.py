"""Tokenizer for rendered syscall text:  name(p0, p1, ...)[, result]  (quotes and /* */ comments respected)."""


def split_call(text):
    """-> (name, [params], rest) or None when the text is not of the form name(...)rest"""
    i = text.find('(')
    if i <= 0:
        return None
    name = text[:i]
    if not all(c.isalnum() or c == '_' for c in name):
        return None
    depth, j, params, cur = 0, i, [], ''
    in_q = False
    in_c = False
    while j < len(text):
        c = text[j]
        if in_q:
            cur += c
            if c == '"':
                in_q = False
        elif in_c:
            cur += c
            if c == '/' and text[j - 1] == '*':
                in_c = False
        elif c == '"':
            in_q = True
            cur += c
        elif c == '/' and text[j + 1:j + 2] == '*':
            in_c = True
            cur += c
        elif c in '([':
            depth += 1
            if depth > 1:
                cur += c
        elif c in ')]':
            depth -= 1
            if depth == 0:
                if cur.strip() or params:
                    params.append(cur.strip())
                return name, params, text[j + 1:]
            cur += c
        elif c == ',' and depth == 1:
            params.append(cur.strip())
            cur = ''
        else:
            cur += c
        j += 1
    return None


def strip_comment(p):
    k = p.find('/*')
    return p[:k].strip() if k >= 0 else p
