"""Shared machinery: context, hypothesis driving, known findings, replay and evidence writing.

Every check module exposes
    ID, RULE, ASSUMPTIONS (list), PROPS (dict name -> prop(ctx, case)), run(ctx)
A *prop* takes a plain-data case (json-able: ints, strs, bytes, lists, dicts with str keys),
records statistics through ctx.note(...) and raises Violation(signature, message) when the oracle
fails.  Replay calls the same prop on the stored case without hypothesis.
"""
import hashlib
import json
import os
import sys
import time
import traceback
from collections import Counter
from pathlib import Path

VERIF_ROOT = Path(__file__).resolve().parent.parent
REPO_ROOT = Path(os.environ.get('VERIF_REPO', '/repo')).resolve()


class Violation(Exception):
    def __init__(self, signature, message=''):
        super().__init__(f'{signature}: {message}')
        self.signature = signature
        self.message = message


class HarnessError(Exception):
    pass


# ----------------------------------------------------------------------------- json helpers

def enc(o, trunc=None):
    if isinstance(o, (bytes, bytearray)):
        h = bytes(o).hex()
        if trunc and len(h) > trunc:
            return {'$b': h[:trunc] + '...', 'len': len(o)}
        return {'$b': h}
    if isinstance(o, (list, tuple)):
        if trunc and len(o) > 40:
            return [enc(x, trunc) for x in o[:40]] + [f'... {len(o) - 40} more']
        return [enc(x, trunc) for x in o]
    if isinstance(o, dict):
        return {str(k): enc(v, trunc) for k, v in o.items()}
    if isinstance(o, str) and trunc and len(o) > 4 * trunc:
        return o[:4 * trunc] + '...'
    if isinstance(o, (set, frozenset)):
        return sorted(enc(x, trunc) for x in o)
    return o


def dec(o):
    if isinstance(o, dict):
        if set(o) == {'$b'}:
            return bytes.fromhex(o['$b'])
        return {k: dec(v) for k, v in o.items()}
    if isinstance(o, list):
        return [dec(x) for x in o]
    return o


def digest(o):
    return hashlib.sha1(json.dumps(enc(o), sort_keys=True, default=repr).encode()).digest()[:8]


def in_repo_frames(exc):
    """name of the innermost function of the code under test in the traceback, or None"""
    name = None
    root = str(REPO_ROOT)
    for fs in traceback.extract_tb(exc.__traceback__):
        if fs.filename.startswith(root + os.sep):
            name = fs.name
    return name


def guard(fn, *a, **kw):
    """call code under test; any exception it raises becomes a Violation with a canonical signature"""
    try:
        return fn(*a, **kw)
    except Violation:
        raise
    except HarnessError:
        raise
    except Exception as e:  # noqa
        where = in_repo_frames(e)
        if where is None:
            # no frame of the code under test in the traceback: a fault of the harness itself, never a violation
            raise HarnessError(f'{getattr(fn, "__name__", "?")}: {type(e).__name__}: {e}\n{traceback.format_exc()}') from e
        raise Violation(f'raises:{type(e).__name__}@{where}', repr(e)[:300]) from e


# ----------------------------------------------------------------------------- watchdog

WATCHDOG_S = int(os.environ.get('VERIF_WATCHDOG_S', '300'))


class watchdog:
    """a single case that runs for minutes is a harness fault (exit 2), never reported as a violation and never
    allowed to hang the check; deterministic non-termination oracles use read budgets instead (io_util)"""

    def __init__(self, seconds, what):
        self.seconds, self.what = seconds, what

    def _fire(self, *_):
        raise HarnessError(f'watchdog: one case of {self.what} exceeded {self.seconds}s')

    def __enter__(self):
        import signal
        import threading
        self.on = threading.current_thread() is threading.main_thread()
        if self.on:
            self.old = signal.signal(signal.SIGALRM, self._fire)
            signal.setitimer(signal.ITIMER_REAL, self.seconds)

    def __exit__(self, *exc):
        import signal
        if self.on:
            signal.setitimer(signal.ITIMER_REAL, 0)
            signal.signal(signal.SIGALRM, self.old)
        return False


# ----------------------------------------------------------------------------- known findings

def load_known(pid):
    p = VERIF_ROOT / 'known_findings.json'
    if not p.exists():
        return []
    data = json.loads(p.read_text())
    return [f for f in data.get('findings', []) if f.get('property') == pid and f.get('status') == 'known']


# ----------------------------------------------------------------------------- context

class Ctx:
    def __init__(self, pid, tier, seed, shard=0, nshards=1):
        self.pid, self.tier, self.seed, self.shard, self.nshards = pid, tier, seed, shard, nshards
        self.evaluations = 0
        self.nontrivial = set()
        self.hist = Counter()
        self.samples = []
        self.excluded = Counter()
        self.subs = Counter()
        self.exhaustive = {}
        self.failures = []     # list of dict(sub, case, signature, message)
        self.found = set()     # signatures of violations found in this run (excluded from the continued search)
        self.known = {f['signature'] for f in load_known(pid)}
        self.notes = []
        self._cur = None

    @property
    def quick(self):
        return self.tier == 'quick'

    def n(self, quick, thorough):
        """case budget for this shard"""
        return quick if self.quick else thorough

    def derive(self, name):
        h = hashlib.sha256(f'{self.seed}/{self.pid}/{name}/{self.shard}'.encode()).digest()
        return int.from_bytes(h[:8], 'little')

    # ---- statistics
    def note(self, canon=None, nontrivial=False, classes=()):
        """record one evaluated case. canon: any json-able canonical form (or None -> current case)."""
        self.evaluations += 1
        for c in classes:
            self.hist[c] += 1
        if nontrivial:
            d = digest(canon if canon is not None else self._cur)
            if d not in self.nontrivial:
                self.nontrivial.add(d)
                k = len(self.nontrivial)
                if len(self.samples) < 8 and (k <= 2 or (k & (k - 1)) == 0):
                    self.samples.append(enc(canon if canon is not None else self._cur, trunc=160))

    # ---- running one case (shared by hypothesis, enumeration and replay)
    def _call(self, sub, prop, case):
        self._cur = case
        self.subs[sub] += 1
        try:
            with watchdog(WATCHDOG_S, sub):
                prop(self, case)
        except Violation:
            raise
        except HarnessError:
            raise
        except Exception as e:  # noqa
            where = in_repo_frames(e)
            if where is None:
                raise HarnessError(f'{sub}: {type(e).__name__}: {e}\n{traceback.format_exc()}') from e
            raise Violation(f'raises:{type(e).__name__}@{where}', repr(e)[:300]) from e

    def run_given(self, sub, strategy, prop, n, max_rounds=8):
        """drive prop with hypothesis; returns True if no (unknown) violation.
        Collect-then-shrink: after a failure is shrunk its signature is excluded by construction and the search
        is run again, so one shallow defect cannot hide the others (up to max_rounds distinct signatures)."""
        from hypothesis import given, seed, settings, HealthCheck, Phase
        ctx = self
        ok = True
        for round_ in range(max_rounds):
            holder = {}

            @seed(self.derive(sub))
            @settings(max_examples=n, database=None, deadline=None, derandomize=False,
                      report_multiple_bugs=False, suppress_health_check=list(HealthCheck),
                      phases=[Phase.explicit, Phase.generate, Phase.shrink], print_blob=False)
            @given(strategy)
            def test(case):
                try:
                    ctx._call(sub, prop, case)
                except Violation as v:
                    if v.signature in ctx.known:
                        ctx.excluded[v.signature] += 1
                        return
                    if v.signature in ctx.found:
                        return
                    holder['fail'] = (case, v)
                    raise

            try:
                test()
            except Violation:
                case, v = holder['fail']
                self.failures.append({'sub': sub, 'case': case, 'signature': v.signature, 'message': v.message})
                self.found.add(v.signature)
                ok = False
                continue
            except HarnessError:
                raise
            except Exception as e:  # hypothesis errors (Flaky, Unsatisfiable, ...)
                if 'Flaky' in type(e).__name__ and 'fail' in holder:
                    # the oracle DID fail on a generated case, but re-running that case alone passed: the outcome
                    # depends on what was processed before (state kept outside the objects the case creates)
                    case, v = holder['fail']
                    self.failures.append({'sub': sub, 'case': case, 'signature': v.signature,
                                          'message': v.message + ' [outcome depends on earlier cases in the same process: '
                                                                 'the failing case may pass when replayed alone]'})
                    self.found.add(v.signature)
                    ok = False
                    continue
                raise HarnessError(f'{sub}: {type(e).__name__}: {e}') from e
            break
        return ok

    def run_enum(self, sub, cases, prop, exhaustive_label=None):
        """plain enumeration; sharded by index"""
        ok = True
        for i, case in enumerate(cases):
            if i % self.nshards != self.shard:
                continue
            try:
                self._call(sub, prop, case)
            except Violation as v:
                if v.signature in self.known:
                    self.excluded[v.signature] += 1
                    continue
                ok = False
                if v.signature in self.found:
                    continue
                self.found.add(v.signature)
                self.failures.append({'sub': sub, 'case': case, 'signature': v.signature, 'message': v.message})
                if len(self.found) > 40:
                    break
        if exhaustive_label and ok:
            self.exhaustive[exhaustive_label] = True
        return ok

    # ---- merging shards
    def export(self):
        return dict(evaluations=self.evaluations, nontrivial=self.nontrivial, hist=self.hist,
                    samples=self.samples, excluded=self.excluded, subs=self.subs,
                    exhaustive=self.exhaustive, failures=self.failures, notes=self.notes)

    def merge(self, d):
        self.evaluations += d['evaluations']
        self.nontrivial |= d['nontrivial']
        self.hist.update(d['hist'])
        for s in d['samples']:
            if len(self.samples) < 10:
                self.samples.append(s)
        self.excluded.update(d['excluded'])
        self.subs.update(d['subs'])
        for k, v in d['exhaustive'].items():
            self.exhaustive[k] = self.exhaustive.get(k, True) and v
        self.failures.extend(d['failures'])
        self.notes.extend(d['notes'])


# ----------------------------------------------------------------------------- output

def write_replay(pid, failure, seed, tier):
    body = {'property': pid, 'check': failure['sub'], 'signature': failure['signature'],
            'message': failure['message'], 'seed': seed, 'tier': tier, 'case': enc(failure['case'])}
    blob = json.dumps(body, sort_keys=True, indent=1, default=repr)
    name = hashlib.sha1(blob.encode()).hexdigest()[:16] + '.json'
    if os.environ.get('VERIF_EVIDENCE_DIR'):
        d = Path(os.environ['VERIF_EVIDENCE_DIR']) / 'replays' / pid
        d.mkdir(parents=True, exist_ok=True)
        (d / name).write_text(blob)
        return str(d / name)
    d = VERIF_ROOT / 'replays' / pid
    d.mkdir(parents=True, exist_ok=True)
    (d / name).write_text(blob)
    return f'replays/{pid}/{name}'


def write_evidence(mod, ctx, wall, nviol, known_lines):
    cov = {
        'evaluations': ctx.evaluations,
        'distinct_nontrivial': len(ctx.nontrivial),
        'rule': mod.RULE,
        'samples': ctx.samples[:10],
        'per_subcheck': dict(ctx.subs),
        'class_histogram': dict(sorted(ctx.hist.items())),
        'excluded_known': dict(ctx.excluded),
        'exhaustive_subdomains': ctx.exhaustive,
        'exhaustive': False,
        'known_findings_reported': known_lines,
        'shards': ctx.nshards,
    }
    if ctx.notes:
        cov['notes'] = sorted(set(ctx.notes))[:40]
    ev = {'property_id': mod.ID, 'tier': ctx.tier, 'seed': ctx.seed, 'level': 'exploration',
          'coverage': cov, 'assumptions': list(mod.ASSUMPTIONS), 'wall_s': round(wall, 2),
          'violations': nviol}
    d = Path(os.environ['VERIF_EVIDENCE_DIR']) if os.environ.get('VERIF_EVIDENCE_DIR') else VERIF_ROOT / 'evidence'
    d.mkdir(parents=True, exist_ok=True)
    (d / f'{mod.ID}.json').write_text(json.dumps(ev, indent=1, default=repr) + '\n')
