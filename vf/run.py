"""Entry point:  python -m vf.run <ID> [--tier quick|thorough] [--replay PATH]

exit 0: property held on everything explored (KNOWN-FINDING lines may be printed)
exit 1: VIOLATION property=<ID> replay=<path>
exit 2: HARNESS-ERROR (never a violation)
"""
import os
import sys

# ---- environment that must be fixed before anything is imported
if os.environ.get('PYTHONHASHSEED') != '0':
    os.environ['PYTHONHASHSEED'] = '0'
    os.execv(sys.executable, [sys.executable, '-m', 'vf.run'] + sys.argv[1:])
os.environ['FORCE_COLOR'] = '1'
for _k in ('NO_COLOR', 'ANSI_COLORS_DISABLED'):
    os.environ.pop(_k, None)

import argparse  # noqa: E402
import importlib  # noqa: E402
import json  # noqa: E402
import time  # noqa: E402
import traceback  # noqa: E402
from pathlib import Path  # noqa: E402

from . import core  # noqa: E402

sys.path.insert(0, str(core.REPO_ROOT))


def _import_checked():
    import pykdebugparser
    p = Path(pykdebugparser.__file__).resolve()
    if core.REPO_ROOT not in p.parents:
        raise core.HarnessError(f'pykdebugparser imported from {p}, not from {core.REPO_ROOT}')


def load(pid):
    return importlib.import_module(f'vf.checks.{pid.lower()}')


def _shard(args):
    pid, tier, seed, shard, nshards = args
    try:
        _import_checked()
        mod = load(pid)
        ctx = core.Ctx(pid, tier, seed, shard, nshards)
        mod.run(ctx)
        return ('ok', ctx.export())
    except core.HarnessError as e:
        return ('harness', str(e))
    except Exception:  # noqa
        return ('harness', traceback.format_exc())


def replay_case(mod, pid, path):
    body = json.loads(Path(path).read_text())
    case = core.dec(body['case'])
    ctx = core.Ctx(pid, 'quick', 0)
    prop = mod.PROPS[body['check']]
    try:
        ctx._call(body['check'], prop, case)
    except core.Violation as v:
        return v
    return None


def run_known_reproducers(mod, pid):
    """re-execute the stored reproducer of every 'known' entry; print KNOWN-FINDING if it still fails"""
    lines = []
    for f in core.load_known(pid):
        rep = f.get('reproducer')
        still = True
        if rep:
            ctx = core.Ctx(pid, 'quick', 0)
            ctx.known = set()
            try:
                ctx._call(rep['check'], mod.PROPS[rep['check']], core.dec(rep['case']))
                still = False
            except core.Violation:
                still = True
        if still:
            line = f"KNOWN-FINDING: property={pid} {f['what']}"
            print(line, flush=True)
            lines.append(line)
    return lines


def run_regressions(mod, pid):
    """shrunk cases of repaired defects: a seconds-long regression tier run first"""
    d = core.VERIF_ROOT / 'regress' / pid
    bad = []
    n = 0
    if d.is_dir():
        for p in sorted(d.glob('*.json')):
            n += 1
            v = replay_case(mod, pid, p)
            if v is not None:
                bad.append((f'regress/{pid}/{p.name}', v))
    return n, bad


def main():
    ap = argparse.ArgumentParser()
    ap.add_argument('pid')
    ap.add_argument('--tier', default=os.environ.get('VERIF_TIER', 'quick'), choices=['quick', 'thorough'])
    ap.add_argument('--replay')
    ap.add_argument('--shards', type=int, default=None)
    a = ap.parse_args()
    pid = a.pid.upper()
    try:
        seed = int(os.environ.get('VERIF_SEED', '1'))
    except ValueError:
        seed = 1
    t0 = time.time()
    try:
        _import_checked()
        mod = load(pid)
        if a.replay:
            v = replay_case(mod, pid, a.replay)
            if v is None:
                print(f'replay passes: {a.replay}')
                return 0
            print(f'{v.signature}: {v.message}')
            print(f'VIOLATION property={pid} replay={a.replay}')
            return 1

        known_lines = run_known_reproducers(mod, pid)
        nreg, bad = run_regressions(mod, pid)
        nshards = a.shards or (1 if a.tier == 'quick' else 16)
        total = core.Ctx(pid, a.tier, seed, 0, nshards)
        if nshards == 1:
            results = [_shard((pid, a.tier, seed, 0, 1))]
        else:
            import multiprocessing as mp
            with mp.get_context('fork').Pool(nshards) as pool:
                results = pool.map(_shard, [(pid, a.tier, seed, i, nshards) for i in range(nshards)], chunksize=1)
        for kind, payload in results:
            if kind != 'ok':
                print(f'HARNESS-ERROR property={pid}\n{payload}', flush=True)
                return 2
            total.merge(payload)
        total.hist['regression_cases'] = nreg
        # distinct root signatures only
        seen, out = set(), []
        for path, v in bad:
            print(f'{v.signature}: {v.message}')
            print(f'VIOLATION property={pid} replay={path}', flush=True)
            out.append(path)
        for f in total.failures:
            if f['signature'] in seen:
                continue
            seen.add(f['signature'])
            path = core.write_replay(pid, f, seed, a.tier)
            print(f"{f['sub']}: {f['signature']}: {f['message']}")
            print(f'VIOLATION property={pid} replay={path}', flush=True)
            out.append(path)
        core.write_evidence(mod, total, time.time() - t0, len(out), known_lines)
        print(f'{pid} {a.tier} seed={seed}: evaluations={total.evaluations} '
              f'distinct_nontrivial={len(total.nontrivial)} excluded_known={sum(total.excluded.values())} '
              f'violations={len(out)} wall={time.time() - t0:.1f}s')
        return 1 if out else 0
    except core.HarnessError as e:
        print(f'HARNESS-ERROR property={pid}\n{e}', flush=True)
        return 2
    except Exception:  # noqa
        print(f'HARNESS-ERROR property={pid}\n{traceback.format_exc()}', flush=True)
        return 2


if __name__ == '__main__':
    sys.exit(main())
