"""Kernel-side *encoder* model, written from xnu's emitters and the file layouts.

Independent of the repository: never imports pykdebugparser. Everything is built with
int.to_bytes / bytes concatenation.
"""
import plistlib
from pathlib import Path
import os

M64 = (1 << 64) - 1
NONE, START, END, ALL = 0, 1, 2, 3


def le(v, n):
    return (v & ((1 << (8 * n)) - 1)).to_bytes(n, 'little')


def record(ts, data32, tid, debugid, cpu=0, unused=0):
    """struct kd_buf (64-bit): timestamp, arg1..arg4, arg5 (thread), debugid, cpuid, unused"""
    assert len(data32) == 32
    return le(ts, 8) + bytes(data32) + le(tid, 8) + le(debugid, 4) + le(cpu, 4) + le(unused, 8)


def args_bytes(a):
    a = list(a) + [0] * (4 - len(a))
    return b''.join(le(x, 8) for x in a[:4])


def ev(ts, tid, debugid, args=(), data=None, cpu=0):
    """an event as plain data: (ts, tid, debugid, data32)"""
    return (ts, tid, debugid & 0xffffffff, bytes(data) if data is not None else args_bytes(args))


def ev_record(e, cpu=0, unused=0):
    return record(e[0], e[3], e[1], e[2], cpu, unused)


def decode_independent(rec):
    """the C01 oracle: independent field extraction"""
    ts = int.from_bytes(rec[0:8], 'little')
    data = bytes(rec[8:40])
    tid = int.from_bytes(rec[40:48], 'little')
    debugid = int.from_bytes(rec[48:52], 'little')
    values = tuple(int.from_bytes(data[8 * i:8 * i + 8], 'little') for i in range(4))
    return dict(timestamp=ts, data=data, values=values, tid=tid, debugid=debugid,
                eventid=debugid - (debugid % 4), func_qualifier=debugid % 4)


# ----------------------------------------------------------------------------- version 2 files

V2_MAGIC = bytes([0x00, 0x02, 0xaa, 0x55])
V3_MAGIC = bytes([0x00, 0x03, 0xaa, 0x55])


def threadmap_entry(tid, pid, name_bytes, tail=b''):
    """tid:u64 pid:u32 name[20]; name NUL terminated inside the 20 byte field"""
    assert len(name_bytes) <= 19 and 0 not in name_bytes
    field = name_bytes + b'\x00'
    field += (tail + bytes(20))[:20 - len(field)]
    return le(tid, 8) + le(pid, 4) + field


def v2_file(threadmap, pad, records, is64=1, tick=24000000, hdr_fill=0):
    """threadmap: list of (tid, pid, name_bytes[, tail]); records: list of 64-byte blobs (or any bytes)"""
    out = V2_MAGIC + le(len(threadmap), 4) + bytes([hdr_fill]) * 12 + le(is64, 4) + le(tick, 8)
    out += bytes([hdr_fill]) * 0x100
    for t in threadmap:
        out += threadmap_entry(*t)
    out += bytes(pad)
    out += b''.join(records)
    return out


# ----------------------------------------------------------------------------- version 3 files

STACKSHOT_END = b'stackshot_out_fl'
TAG_THREADMAP = bytes([0x00, 0x1d, 0, 0, 0, 0, 0, 0])
TAG_EVENTS = bytes([0x00, 0x1e, 0, 0, 0, 0, 0, 0])
TAG_MORE = bytes([0x00, 0x20, 0, 0, 0, 0, 0, 0])
TAG_DYLD = bytes([0x01, 0x80, 0, 0, 0, 0, 0, 0])
TAG_CODES = bytes([0x0f, 0x80, 0, 0, 0, 0, 0, 0])
TAG_PROCESSES = bytes([0x10, 0x80, 0, 0, 0, 0, 0, 0])
TAG_LOGS = bytes([0x11, 0x80, 0, 0, 0, 0, 0, 0])
TAG_STRINGS = bytes([0x12, 0x80, 0, 0, 0, 0, 0, 0])
TAG_KEXTS = bytes([0x05, 0x80, 0, 0, 0, 0, 0, 0])
TAG_IMAGES = bytes([0x04, 0x80, 0, 0, 1, 0, 0, 0])

V3_HEADER_FIELDS = ['tag', 'sub_tag', 'length', 'timebase_numer', 'timebase_denom', 'timestamp',
                    'walltime_secs', 'walltime_usecs', 'timezone_minuteswest', 'timezone_dst', 'flags', 'tag2']
V3_HEADER_SIZES = [4, 4, 8, 4, 4, 8, 8, 4, 4, 4, 4, 4]


def v3_header(fields, cpu_info_plist_bytes):
    """after the 4 magic bytes: 60 fixed bytes, u64 length, plist, pad to 8 (relative to offset 4), 4 bytes"""
    h = b''.join(le(fields[k], n) for k, n in zip(V3_HEADER_FIELDS, V3_HEADER_SIZES))
    assert len(h) == 60
    h += le(len(cpu_info_plist_bytes), 8) + cpu_info_plist_bytes
    h += bytes(-len(h) % 8)
    h += bytes(4)
    return h


def v3_block(tag, payload, pad=True):
    out = tag + le(len(payload), 8) + payload
    if pad:
        out += bytes(-len(payload) % 8)
    return out


def v3_events(chunks, more_fillers=None):
    """chunks: list of lists of 64-byte records. more_fillers[i]: bytes between MORE tag i and the next events tag"""
    out = b''
    for i, ch in enumerate(chunks):
        if i:
            out += TAG_MORE + (more_fillers[i - 1] if more_fillers else b'')
        out += TAG_EVENTS + le(sum(len(r) for r in ch), 8) + bytes(8) + b''.join(ch)      # (a last element may be a partial record)
    return out


def v3_file(hdr_fields, cpu_plist, filler1, filler2, threadmap, chunks, more_fillers, blocks, last_pad=True, filler3=b''):
    """blocks: list of (tag, payload bytes)"""
    out = V3_MAGIC + v3_header(hdr_fields, cpu_plist)
    out += filler1 + STACKSHOT_END + filler2 + TAG_THREADMAP
    tm = b''.join(threadmap_entry(*t) for t in threadmap)
    out += le(len(tm), 8) + tm + filler3
    out += v3_events(chunks, more_fillers)
    for i, (tag, payload) in enumerate(blocks):
        out += v3_block(tag, payload, pad=(last_pad or i < len(blocks) - 1))
    return out


# ----------------------------------------------------------------------------- multi-record texts

def lookup_chunks(vnode_id, path_bytes):
    """xnu kdebug_lookup_gen_events: list of (qualifier, data32)"""
    n = len(path_bytes)
    assert n <= 184
    buf = path_bytes + bytes(184 - n + 32)
    out = []
    q = START | (END if n <= 24 else 0)
    out.append((q, le(vnode_id, 8) + buf[:24]))
    off = 24
    while off < n:
        q = END if off + 32 >= n else NONE
        out.append((q, buf[off:off + 32]))
        off += 32
    return out


def global_string_chunks(debugid, str_id, text_bytes):
    """xnu kernel_debug_string_internal: first record debugid, str_id + 16 bytes; then 32-byte continuations"""
    n = len(text_bytes)
    buf = text_bytes + bytes(64)
    q = START | (END if n <= 16 else 0)
    out = [(q, le(debugid, 8) + le(str_id, 8) + buf[:16])]
    off = 16
    while off < n:
        q = END if off + 32 >= n else NONE
        out.append((q, buf[off:off + 32]))
        off += 32
    return out


def simple_string_chunks(text_bytes):
    """xnu kernel_debug_string_simple: 32 bytes per record, START on first, END on last"""
    n = len(text_bytes)
    buf = text_bytes + bytes(64)
    if n <= 32:
        return [(START | END, buf[:32])]
    out = []
    off = 0
    while off < n:
        q = 0
        if off == 0:
            q |= START
        if off + 32 >= n:
            q |= END
        out.append((q, buf[off:off + 32]))
        off += 32
    return out


def ioc(direction, group, num, length):
    return (direction | ((length & 0x1fff) << 16) | ((group & 0xff) << 8) | (num & 0xff)) & 0xffffffff


def firehose_id(ns, type_, has_current_aid, pc_style, has_unique_pid, has_large_offset, ns_flags, code):
    b2 = (has_current_aid & 1) | ((pc_style & 7) << 1) | ((has_unique_pid & 1) << 4) | ((has_large_offset & 1) << 5)
    return (ns & 0xff) | ((type_ & 0xff) << 8) | (b2 << 16) | ((ns_flags & 0xff) << 24) | ((code & 0xffffffff) << 32)


# ----------------------------------------------------------------------------- bundled code table (independent reader)

_codes_cache = {}


def code_table(repo_root):
    """independent reader of the bundled trace.codes: {name: id} and {id: name} (last occurrence wins)"""
    key = str(repo_root)
    if key not in _codes_cache:
        by_id = {}
        for line in Path(repo_root, 'pykdebugparser', 'trace.codes').read_text().split('\n'):
            parts = line.split()
            if len(parts) >= 2:
                by_id[int(parts[0], 16)] = parts[1]
        by_name = {}
        for i, n in by_id.items():
            by_name.setdefault(n, i)
        _codes_cache[key] = (by_id, by_name)
    return _codes_cache[key]
