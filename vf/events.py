"""Event streams as plain data and their realisation as real Kevent objects.

abstract event: [tid, code, qualifier, data32]   code = table name (str) or raw event id (int)
"""
from . import kmodel
from .core import REPO_ROOT

NONE, START, END, ALL = 0, 1, 2, 3

TRACE_DOMAIN = ['TRACE_DATA_NEWTHREAD', 'TRACE_DATA_EXEC', 'TRACE_DATA_THREAD_TERMINATE',
                'TRACE_DATA_THREAD_TERMINATE_PID', 'TRACE_STRING_GLOBAL', 'TRACE_STRING_NEWTHREAD',
                'TRACE_STRING_EXEC', 'TRACE_STRING_PROC_EXIT', 'TRACE_STRING_THREADNAME',
                'TRACE_STRING_THREADNAME_PREV']


def by_name():
    return kmodel.code_table(REPO_ROOT)[1]


def by_id():
    return kmodel.code_table(REPO_ROOT)[0]


def eid(code):
    return by_name()[code] if isinstance(code, str) else code


def E(tid, code, q, args=None, data=None):
    return [tid, code, q, bytes(data) if data is not None else kmodel.args_bytes(args or ())]


def text32(b):
    return (bytes(b) + bytes(32))[:32]


def realize(events, ts0=1000, step=7, table=None, ts_list=None):
    """-> list of real Kevent objects (decoded from encoded records by the repository's own decoder);
    timestamps strictly increasing (assumption A1)"""
    from pykdebugparser.kevent import from_kd_buf
    names = table if table is not None else by_name()
    out = []
    for i, (tid, code, q, data) in enumerate(events):
        ident = names[code] if isinstance(code, str) else code
        ts = ts_list[i] if ts_list is not None else ts0 + step * i
        out.append(from_kd_buf(kmodel.record(ts, bytes(data), tid, (ident & ~3) | q, cpu=i % 4)))
    return out


_default_codes = None


def default_codes():
    global _default_codes
    if _default_codes is None:
        from pykdebugparser.trace_codes import default_trace_codes
        _default_codes = default_trace_codes()
    return dict(_default_codes)


def new_traces_parser(codes=None, threads_pids=None, pids_names=None):
    from pykdebugparser.traces_parser import TracesParser
    return TracesParser(default_codes() if codes is None else codes,
                        {} if threads_pids is None else threads_pids, {} if pids_names is None else pids_names)


def decodable_names():
    """names the tool registers a decoder for, by family (facts about the code under test)"""
    from pykdebugparser.trace_handlers import bsd, dyld, fsystem, mach, perf, trace, turnstile
    return {'bsd': sorted(bsd.handlers), 'dyld': sorted(dyld.handlers), 'fsystem': sorted(fsystem.handlers),
            'mach': sorted(mach.handlers), 'perf': sorted(perf.handlers), 'trace': sorted(trace.handlers),
            'turnstile': sorted(turnstile.handlers)}


def all_decodable():
    return sorted(n for fam in decodable_names().values() for n in fam)


def lookup_events(tid, vnode_id, path_bytes):
    return [E(tid, 'VFS_LOOKUP', q, data=d) for q, d in kmodel.lookup_chunks(vnode_id, path_bytes)]


def global_string_events(tid, debugid, str_id, text_bytes):
    return [E(tid, 'TRACE_STRING_GLOBAL', q, data=d) for q, d in kmodel.global_string_chunks(debugid, str_id, text_bytes)]


def threadname_events(tid, text_bytes, code='TRACE_STRING_THREADNAME'):
    return [E(tid, code, q, data=d) for q, d in kmodel.simple_string_chunks(text_bytes)]


def deliver(parser, real, cuts=None):
    """hand a stream to one TracesParser in portions: portion k goes through feed_generator() (fully consumed) or, every
    third portion, record by record through feed(). Where a live consumer cuts its batches is not part of the stream.
    -> list aligned with `real`: the trace emitted at that record, or None"""
    from .core import Violation
    out = [None] * len(real)
    if not cuts:
        for j, e in enumerate(real):
            out[j] = parser.feed(e)
        return out
    where = {id(e): j for j, e in enumerate(real)}
    bounds = sorted({c % (len(real) + 1) for c in cuts}) + [len(real)]
    pos = 0
    for k, c in enumerate(bounds):
        portion = real[pos:c]
        if k % 3 == 2:
            for j, e in zip(range(pos, c), portion):
                out[j] = parser.feed(e)
        else:
            for t in parser.feed_generator(iter(portion)):
                if t is None:
                    continue
                j = where.get(id(t.ktraces[-1])) if t.ktraces else None
                if j is None or not pos <= j < c or out[j] is not None:
                    raise Violation('window-ends', f'a trace emitted while records {pos}..{c - 1} were fed does not end with one of them: {str(t)[:120]!r}')
                out[j] = t
        pos = c
    return out


_family = {}


def family_lookalikes(name):
    """names of the bundled table that begin with `name` + '_' and have no decoder of their own (BSC_mmap_extended_info
    for BSC_mmap, BSC_pread_extended_info for BSC_pread, ...): records a decoder might wrongly adopt from its window"""
    if name not in _family:
        dec = set(all_decodable())
        _family[name] = sorted(n for n in by_name() if n.startswith(name + '_') and n not in dec)[:4]
    return _family[name]
