"""Plain-data specs of version-2 / version-3 dumps, their hypothesis strategies and builders.

A spec is json-able; build_v2/build_v3 turn it into bytes with kmodel (independent encoder);
expected_* compute what the statement says must come out, with plain loops.
"""
import plistlib

from hypothesis import strategies as st

from . import kmodel, strategies as S

# ----------------------------------------------------------------------------- thread maps

TID_POOL = [1, 2, 3, 0x10, 0x1234, 2 ** 32, 2 ** 64 - 1, 0]
PID_POOL = [0, 1, 2, 77, 100, 2 ** 31, 2 ** 32 - 1]


def threadmap(max_n=40):
    tid = st.one_of(st.sampled_from(TID_POOL), S.u64)
    pid = st.one_of(st.sampled_from(PID_POOL), S.u32)
    tail = st.one_of(st.just(b''), st.just(b''), st.just(b''), st.binary(max_size=19))
    entry = st.tuples(tid, pid, S.proc_name_bytes(), tail).map(list)
    return st.lists(entry, min_size=0, max_size=max_n)


def expected_tables(tm):
    threads_pids, pids_names = {}, {}
    for tid, pid, name, *_ in tm:
        threads_pids[tid] = pid
        pids_names[pid] = bytes(name).decode('utf8')
    return threads_pids, pids_names


# ----------------------------------------------------------------------------- v2

def pad_len():
    return st.one_of(st.just(0), st.just(0), st.integers(1, 7), st.integers(8, 64), st.integers(65, 4096))


def records(max_m=60, first_nonzero=False):
    """list of 64-byte records with the interesting classes forced by construction"""
    def zero_lead(k_rec):
        k, rec = k_rec
        return bytes(k) + rec[k:]
    rec = st.one_of(S.record64(), S.record64(),
                    st.tuples(st.integers(1, 63), S.record64()).map(zero_lead),
                    st.just(bytes(64)))
    lst = st.lists(rec, min_size=0, max_size=max_m)
    if first_nonzero:
        def fix(rs):
            if rs and rs[0][0] == 0:
                rs = [bytes([1]) + rs[0][1:]] + rs[1:]
            return rs
        return lst.map(fix)
    return lst


def v2_spec(max_n=40, max_m=60, known_class_weight=True):
    """first record nonzero-leading in ~97% of files (the rest is the K1 known-finding class)"""
    def pick(t):
        k, rs = t
        if rs and rs[0][0] == 0 and not (known_class_weight and 500 <= k < 540):
            rs = [bytes([1 + k % 255]) + rs[0][1:]] + rs[1:]
        return rs
    recs = st.tuples(st.integers(0, 999), records(max_m)).map(pick)
    return st.fixed_dictionaries({
        'tm': threadmap(max_n), 'pad': pad_len(), 'recs': recs,
        'is64': st.sampled_from([0, 1, 0xffffffff]), 'tick': S.u64, 'fill': st.sampled_from([0, 0, 0xff, 0x41]),
    })


def build_v2(spec):
    return kmodel.v2_file([tuple(t) for t in spec['tm']], spec['pad'], spec['recs'], spec.get('is64', 1),
                          spec.get('tick', 0), spec.get('fill', 0))


# ----------------------------------------------------------------------------- v3

ALPHA_NO_MARKER = bytes(b for b in range(256) if b not in (0x00, ord('s')))  # cannot spell any marker start


def filler(max_size=200, marker_hint=None):
    """bytes that cannot contain the marker that ends them: drawn from an alphabet without 0x00 and 's';
    a low-weight class embeds partial markers (proper prefixes followed by a breaking byte)"""
    base = st.binary(max_size=max_size).map(lambda b: bytes(ALPHA_NO_MARKER[x % len(ALPHA_NO_MARKER)] for x in b))
    return base


def filler_with_partials(marker, max_size=200, also_forbidden=()):
    """filler that may contain proper prefixes of `marker` (each followed by a byte that breaks the match)."""
    def build(parts):
        out = b''
        for kind, blob, k in parts:
            out += bytes(ALPHA_NO_MARKER[x % len(ALPHA_NO_MARKER)] for x in blob)
            if kind:
                k = 1 + k % (len(marker) - 1)
                nxt = marker[k]
                brk = 0x01 if nxt != 0x01 else 0x02
                out += marker[:k] + bytes([brk])
        return out
    part = st.tuples(st.booleans(), st.binary(max_size=24), st.integers(0, 64))
    return st.lists(part, max_size=6).map(build).filter(
        lambda b: marker not in b and all(f not in b for f in also_forbidden))


plist_scalar = st.one_of(st.integers(-2 ** 63, 2 ** 63 - 1), st.text(max_size=12), st.booleans(),
                         st.binary(max_size=16))
plist_value = st.recursive(plist_scalar, lambda c: st.one_of(
    st.lists(c, max_size=4), st.dictionaries(st.text(min_size=1, max_size=8), c, max_size=4)), max_leaves=8)
plist_dict = st.dictionaries(st.text(min_size=1, max_size=8), plist_value, max_size=4)
binaries_list = st.lists(plist_dict, max_size=4)


def v3_header_fields():
    sizes = dict(zip(kmodel.V3_HEADER_FIELDS, kmodel.V3_HEADER_SIZES))
    return st.fixed_dictionaries({k: (S.u64 if n == 8 else S.u32) for k, n in sizes.items()})
