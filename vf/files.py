"""Plain-data specs of version-2 / version-3 dumps, their hypothesis strategies and builders.

A spec is json-able; build_v2/build_v3 turn it into bytes with kmodel (independent encoder);
expected_* compute what the statement says must come out, with plain loops.
"""
import plistlib

from hypothesis import strategies as st

from . import kmodel, strategies as S

# ----------------------------------------------------------------------------- thread maps

TID_POOL = [1, 2, 3, 0x10, 0x1234, 2 ** 32, 2 ** 64 - 1, 0]
PID_POOL = [0, 1, 2, 77, 100, 2 ** 31, 2 ** 32 - 1]


def threadmap(max_n=40):
    tid = st.one_of(st.sampled_from(TID_POOL), S.u64)
    pid = st.one_of(st.sampled_from(PID_POOL), S.u32)
    tail = st.one_of(st.just(b''), st.just(b''), st.just(b''), st.binary(max_size=19))
    entry = st.tuples(tid, pid, S.proc_name_bytes(), tail).map(list)
    return st.lists(entry, min_size=0, max_size=max_n)


def expected_tables(tm):
    threads_pids, pids_names = {}, {}
    for tid, pid, name, *_ in tm:
        threads_pids[tid] = pid
        pids_names[pid] = bytes(name).decode('utf8')
    return threads_pids, pids_names


# ----------------------------------------------------------------------------- v2

def pad_len():
    # up to a page and beyond: 16 KiB and 64 KiB pages exist, and the event section may start on one
    return st.one_of(st.just(0), st.just(0), st.integers(1, 7), st.integers(8, 64), st.integers(65, 4096), st.integers(65, 4096),
                     st.sampled_from([4097, 4160, 8192, 16384 - 0x120, 16384, 65536 - 0x120 - 28, 65536, 70000]))


def records(max_m=60, first_nonzero=False):
    """list of 64-byte records with the interesting classes forced by construction"""
    def zero_lead(k_rec):
        k, rec = k_rec
        return bytes(k) + rec[k:]
    rec = st.one_of(S.record64(), S.record64(),
                    st.tuples(st.integers(1, 63), S.record64()).map(zero_lead),
                    st.just(bytes(64)))
    lst = st.lists(rec, min_size=0, max_size=max_m)
    if first_nonzero:
        def fix(rs):
            if rs and rs[0][0] == 0:
                rs = [bytes([1]) + rs[0][1:]] + rs[1:]
            return rs
        return lst.map(fix)
    return lst


def v2_spec(max_n=40, max_m=60, known_class_weight=True):
    """first record nonzero-leading in ~97% of files (the rest is the K1 known-finding class)"""
    def pick(t):
        k, rs = t
        if rs and rs[0][0] == 0 and not (known_class_weight and 500 <= k < 540):
            rs = [bytes([1 + k % 255]) + rs[0][1:]] + rs[1:]
        return rs
    recs = st.tuples(st.integers(0, 999), records(max_m)).map(pick)
    return st.fixed_dictionaries({
        'tm': threadmap(max_n), 'pad': pad_len(), 'recs': recs,
        'is64': st.sampled_from([0, 1, 0xffffffff]), 'tick': S.u64, 'fill': st.sampled_from([0, 0, 0xff, 0x41]),
    })


def build_v2(spec):
    return kmodel.v2_file([tuple(t) for t in spec['tm']], spec['pad'], spec['recs'], spec.get('is64', 1),
                          spec.get('tick', 0), spec.get('fill', 0))


# ----------------------------------------------------------------------------- v3

ALPHA_NO_MARKER = bytes(b for b in range(256) if b not in (0x00, ord('s')))  # cannot spell any marker start


def filler(max_size=200, marker_hint=None):
    """bytes that cannot contain the marker that ends them: drawn from an alphabet without 0x00 and 's';
    a low-weight class embeds partial markers (proper prefixes followed by a breaking byte)"""
    base = st.binary(max_size=max_size).map(lambda b: bytes(ALPHA_NO_MARKER[x % len(ALPHA_NO_MARKER)] for x in b))
    return base


def filler_with_partials(marker, max_size=200, also_forbidden=()):
    """filler that may contain proper prefixes of `marker` (each followed by a byte that breaks the match)."""
    def build(parts):
        out = b''
        for kind, blob, k in parts:
            out += bytes(ALPHA_NO_MARKER[x % len(ALPHA_NO_MARKER)] for x in blob)
            if kind:
                k = 1 + k % (len(marker) - 1)
                nxt = marker[k]
                brk = 0x01 if nxt != 0x01 else 0x02
                out += marker[:k] + bytes([brk])
        return out
    part = st.tuples(st.booleans(), st.binary(max_size=24), st.integers(0, 64))
    return st.lists(part, max_size=6).map(build).filter(
        lambda b: marker not in b and all(f not in b for f in also_forbidden))


plist_scalar = st.one_of(st.integers(-2 ** 63, 2 ** 63 - 1), st.text(max_size=12), st.booleans(),
                         st.binary(max_size=16))
plist_value = st.recursive(plist_scalar, lambda c: st.one_of(
    st.lists(c, max_size=4), st.dictionaries(st.text(min_size=1, max_size=8), c, max_size=4)), max_leaves=8)
plist_dict = st.dictionaries(st.text(min_size=1, max_size=8), plist_value, max_size=4)
binaries_list = st.lists(plist_dict, max_size=4)


def v3_header_fields():
    sizes = dict(zip(kmodel.V3_HEADER_FIELDS, kmodel.V3_HEADER_SIZES))
    return st.fixed_dictionaries({k: (S.u64 if n == 8 else S.u32) for k, n in sizes.items()})


# ---- v3 spec strategy

from . import logs as _logs  # noqa: E402

UNKNOWN_TAGS = [bytes([x, 0x80, 0, 0, 0, 0, 0, 0]) for x in (2, 3, 6, 7, 0x13, 0x21)] + [bytes([0x00, 0x21, 0, 0, 0, 0, 0, 0])]


def ends_cleanly(fill, marker):
    """the first occurrence of marker in fill+marker is the real one"""
    return (fill + marker).find(marker) == len(fill)


def marker_filler(marker, max_size=120):
    """filler before `marker`: random bytes from an alphabet that cannot start the marker, partial markers in the
    middle, and (often) a proper prefix of the marker right at the end -- always such that the first occurrence
    of the marker is the real one (checked, not assumed)."""
    def build(t):
        body, tail_k, use_tail = t
        out = body
        if use_tail:
            k = 1 + tail_k % (len(marker) - 1)
            out += marker[:k]
        return out
    body = filler_with_partials(marker, max_size)
    return st.tuples(body, st.integers(0, 64), st.booleans()).map(build).filter(lambda f: ends_cleanly(f, marker))


def chunked(recs_strategy, max_chunks=6):
    """split a record list into 1..k chunks at arbitrary points (empty chunks allowed)"""
    def split(t):
        recs, cuts = t
        cuts = sorted(c % (len(recs) + 1) for c in cuts)
        out, prev = [], 0
        for c in cuts:
            out.append(recs[prev:c])
            prev = c
        out.append(recs[prev:])
        return out
    ncuts = st.sampled_from([0, 1, 1, 2, 2, 3, 4, 5][:max_chunks + 2])
    return ncuts.flatmap(lambda k: st.tuples(recs_strategy, st.lists(st.integers(0, 10 ** 6), min_size=k, max_size=k))).map(split)


def many_records(count, seed):
    """`count` distinct pseudo-random records from one seed (no draw of tens of kilobytes): sizes around the block
    sizes a buffered reader would use (256, 512, 1024, 2048, 4096 records)"""
    import hashlib
    out = []
    for k in range(count):
        h = hashlib.blake2b(b'%d/%d' % (seed, k), digest_size=64).digest()
        out.append(bytes([h[0] | 1]) + h[1:])
    return out


BIG_COUNTS = [255, 256, 257, 511, 512, 513, 1023, 1024, 1025, 1100, 2047, 2048, 2049, 3000, 4096, 4097]


def big_records(lo=41, hi=260):
    """many records in one draw (cheap): chunk sizes beyond the usual few dozen"""
    return st.integers(lo, hi).flatmap(lambda k: st.binary(min_size=64 * k, max_size=64 * k)).map(
        lambda b: [b[i:i + 64] for i in range(0, len(b), 64)])


def v3_spec(max_events=80, max_n=30, with_logs=True, tids=None, records_strategy=None, log_copies=2, force_logs=False, decoy_often=False):
    recs = records_strategy if records_strategy is not None else st.one_of(
        st.lists(S.record64(), max_size=max_events), st.lists(S.record64(), min_size=min(4, max_events), max_size=min(16, max_events)),
        *([big_records()] if max_events >= 80 else []))
    codes_line = st.text(st.characters(min_codepoint=0x20, max_codepoint=0x7e), max_size=40)
    codes_text = st.one_of(codes_line.map(lambda s: s + '\n'), codes_line, st.tuples(codes_line, codes_line).map(lambda t: t[0] + '\n' + t[1]))

    def with_table(table):
        logrec = _logs.raw_record(table, tids=tids)
        block = st.one_of(
            st.tuples(st.just('dyld'), st.fixed_dictionaries({'Binaries': binaries_list}, optional={'Extra': plist_value})),
            st.tuples(st.just('kexts'), st.fixed_dictionaries({'Binaries': binaries_list})),
            st.tuples(st.just('codes'), codes_text),
            st.tuples(st.just('unknown'), st.tuples(st.sampled_from(UNKNOWN_TAGS), st.binary(max_size=40)).map(list)),
            *([st.tuples(st.just('logs'), st.lists(logrec, max_size=4))] * (log_copies if with_logs else 0)),
        ).map(list)
        return st.fixed_dictionaries({
            'hdr': v3_header_fields(), 'cpu': plist_dict,
            'filler1': marker_filler(kmodel.STACKSHOT_END), 'filler1_tag': st.booleans(),
            'filler2': marker_filler(kmodel.TAG_THREADMAP), 'filler3': marker_filler(kmodel.TAG_EVENTS, 40),
            'tm': threadmap(max_n),
            'chunks': chunked(recs),
            'more_fillers': st.lists(marker_filler(kmodel.TAG_EVENTS, 40), min_size=6, max_size=6),
            'blocks': st.lists(block, max_size=7),
            'processes': st.one_of(st.none(), plist_dict), 'images': st.one_of(st.none(), plist_dict),
            'singles_pos': st.tuples(st.integers(0, 8), st.integers(0, 8), st.integers(0, 8)).map(list),
            'table': st.just(table), 'strings_block': st.booleans(),
            'xml': st.lists(st.booleans(), min_size=12, max_size=12),
            'last_pad': st.booleans(),
            # look-alike sections inside the stackshot ("the threadmap tag appears randomly in the stackshot")
            'decoy': st.one_of(*([st.none()] * (1 if decoy_often else 2)), *([st.fixed_dictionaries({
                'tm': threadmap(3), 'recs': st.lists(S.record64(), min_size=1, max_size=3), 'gap': st.binary(max_size=12)})] * (2 if decoy_often else 1))),
            **({'forced_logs': st.lists(logrec, min_size=2, max_size=6)} if force_logs else {}),
        }).map(_merge_forced)
    return _logs.string_table().flatmap(with_table)


def _merge_forced(spec):
    forced = spec.pop('forced_logs', None)
    if forced:
        spec['blocks'] = list(spec['blocks']) + [['logs', forced]]
    return spec


def _dumps(obj, xml):
    fmt = plistlib.FMT_XML if xml else plistlib.FMT_BINARY
    try:
        blob = plistlib.dumps(obj, fmt=fmt)
        if plistlib.loads(blob) == obj:
            return blob
    except Exception:  # noqa
        pass
    return plistlib.dumps(obj, fmt=plistlib.FMT_BINARY)


def v3_layout(spec):
    """-> (blocks [(tag, payload)], ordered description used by the expectations)"""
    table = spec['table']
    seq = [list(b) for b in spec['blocks']]
    has_logs = any(k == 'logs' and v for k, v in seq)
    singles = []
    if spec['processes'] is not None:
        singles.append(['processes', spec['processes']])
    if spec['images'] is not None:
        singles.append(['images', spec['images']])
    if has_logs or spec['strings_block']:
        singles.append(['strings', {s: i for i, s in table}])
    for (kind, val), pos in zip(singles, spec['singles_pos']):
        seq.insert(pos % (len(seq) + 1), [kind, val])
    # a dict-valued section may come in a second block (a later snapshot): spec['processes2'] / spec['images2']
    for kind in ('processes', 'images'):
        v2 = spec.get(kind + '2')
        if v2 is not None and spec[kind] is not None:
            seq.insert((len(v2) + len(seq)) % (len(seq) + 1), [kind, v2])
    blocks = []
    xml = list(spec['xml'])
    for i, (kind, val) in enumerate(seq):
        x = xml[i % len(xml)]
        if kind == 'dyld':
            blocks.append((kmodel.TAG_DYLD, _dumps(val, x)))
        elif kind == 'kexts':
            blocks.append((kmodel.TAG_KEXTS, _dumps(val, x)))
        elif kind == 'codes':
            blocks.append((kmodel.TAG_CODES, val.encode()))
        elif kind == 'unknown':
            blocks.append((bytes(val[0]), bytes(val[1])))
        elif kind == 'logs':
            blocks.append((kmodel.TAG_LOGS, _dumps({'Events': [_logs.realize(r, table) for r in val]}, x)))
        elif kind == 'processes':
            blocks.append((kmodel.TAG_PROCESSES, _dumps(val, x)))
        elif kind == 'images':
            blocks.append((kmodel.TAG_IMAGES, _dumps(val, x)))
        elif kind == 'strings':
            blocks.append((kmodel.TAG_STRINGS, _dumps({'StringIndex': val}, x)))
    return blocks, seq


def build_v3(spec):
    blocks, _ = v3_layout(spec)
    f1 = spec['filler1']
    if spec.get('filler1_tag'):
        f1 = kmodel.TAG_THREADMAP + f1      # the thread-map tag "appears randomly in the stackshot"
    dec = spec.get('decoy')
    if dec:
        tmb = b''.join(kmodel.threadmap_entry(*t) for t in dec['tm'])
        blob = (kmodel.TAG_THREADMAP + kmodel.le(len(tmb), 8) + tmb + bytes(dec['gap']).replace(b's', b'S') +
                kmodel.TAG_EVENTS + kmodel.le(64 * len(dec['recs']), 8) + bytes(8) + b''.join(dec['recs']))
        if ends_cleanly(blob + f1, kmodel.STACKSHOT_END):
            f1 = blob + f1
    chunks = spec['chunks']
    return kmodel.v3_file(spec['hdr'], _dumps(spec['cpu'], False), f1, spec['filler2'] , [tuple(t) for t in spec['tm']],
                          chunks, spec['more_fillers'][:max(0, len(chunks) - 1)], blocks, last_pad=spec['last_pad'],
                          filler3=spec.get('filler3', b''))


def v3_all_records(spec):
    return [r for ch in spec['chunks'] for r in ch]


def v3_all_logs(spec):
    return [r for k, v in spec['blocks'] if k == 'logs' for r in v]
