"""Well-formed per-thread event programs (operation templates) and their interleavings.

Shared by C05, C07, C13, C14. Every event produced is individually in-domain (domains.project).
An op is plain data: [kind, name, seed, k, extra]; expand_op turns it into abstract events
[tid, code, qualifier, data32] for one thread.
"""
from hypothesis import strategies as st

from . import domains, events as EV, kmodel, strategies as S

E = EV.E
JUNK = ['INTERRUPT', 'DecrSet', 'BSC_pread_extended_info', 'RealFaultAddressPurgeable', 'MACH_vm_page_release',
        0x99990000, 'PERF_THD_CSwitch', 'MACH_SCHED',
        # undecoded names that look like the records decoders search their windows for (same prefix, neighbouring id)
        'VFS_LOOKUP_DONE', 'DYLD_uuid_map_32_a', 'DYLD_uuid_shared_cache_32_a', 'PERF_STK_USample', 'PERF_THD_Disp_Data',
        'DBG_DYLD_TIMING_OBJC_INIT',
        # bookkeeping records of the trace facility itself that no decoder handles (a cpu buffer overflowed, ...)
        'TRACE_LOST_EVENTS', 'TRACE_WRITING_EVENTS']
LOOKALIKES = JUNK[8:]
REAL_FAULT_KINDS = ['RealFaultAddressInternal', 'RealFaultAddressExternal', 'RealFaultAddressSharedCache',
                    'RealFaultAddressPurgeable']
DYLD_STRING_OPS = {'DBG_DYLD_TIMING_DLOPEN': 1, 'DBG_DYLD_TIMING_DLOPEN_PREFLIGHT': 1, 'DBG_DYLD_TIMING_DLSYM': 2,
                   'DBG_DYLD_TIMING_MAP_IMAGE': 1}
LAUNCH_NESTED = ['DYLD_uuid_map_a', 'DYLD_uuid_shared_cache_a', 'DYLD_uuid_unmap_a', 'DYLD_uuid_map_b']

_cache = {}


def ordinary_names():
    if 'ord' not in _cache:
        byname = EV.by_name()
        dec = EV.decodable_names()
        _cache['ord'] = sorted(n for fam, ns in dec.items() if fam != 'trace' for n in ns if n in byname)
    return _cache['ord']


def w(seed, k=0):
    return S.expand_words(seed, k)


def ev(tid, code, q, seed, k=0):
    name = code if isinstance(code, str) else None
    words = w(seed, k)
    data = domains.project(name, q, words) if name else b''.join(x.to_bytes(8, 'little') for x in words)
    return E(tid, code, q, data=data)


SPECIAL_PATHS = ['/.vol/', '/.vol/16777220', '/.vol/16777220/4295', '/.vol/16777220/4295/sub', '/dev/', '/dev/null', '//', '/..', '/.', '/a//b/', '/private/var/',
                 '.', '..', 'relative/path', '/System/Volumes/Data/.vol/1/2']


def path_text(seed, k):
    """ASCII path of a length derived from the seed: boundary lengths favoured; one path in seven is a special shape
    (volfs, device, relative, doubled or trailing slashes) or is built on a path-like string constant of the package source"""
    words = w(seed, 100 + k)
    if words[3] % 7 == 0:
        from . import dictionary
        pool = SPECIAL_PATHS + [t + sfx for t in dictionary.path_tokens() for sfx in ('', '12', '12/34', 'x')]
        return pool[words[2] % len(pool)].encode()[:184]
    lens = [0, 1, 5, 23, 24, 25, 40, 55, 56, 57, 88, 89, 120, 183, 184]
    n = lens[words[0] % len(lens)] if words[1] % 3 else words[0] % 185
    t = domains.ascii_text((words[2] | 1, words[3], n * 977, 5), 400)
    t = (t * (n // max(len(t), 1) + 1))[:n] if t else b'p' * n
    return (b'/' + t)[:n] if n else b''


def junk(tid, seed, k):
    code = JUNK[w(seed, 50 + k)[0] % len(JUNK)]
    return ev(tid, code, w(seed, 51 + k)[1] % 4 if isinstance(code, int) else 0, seed, 52 + k)


def expand_op(tid, op, res):
    """res: dict of per-program unique resources: child tids, pids, string ids (partitioned by construction)"""
    kind, name, seed, k, extra = op
    out = []
    if kind == 'call':
        out.append(ev(tid, name, 1, seed, 0))
        for i in range(k):
            if extra & 1 and i == 0:
                out.append(junk(tid, seed, i))
            chunks = EV.lookup_events(tid, w(seed, 10 + i)[0], path_text(seed, i))
            if extra & 8 and len(chunks) > 1:
                # an interrupt (or any record of another class) lands between the chunk records of one lookup
                cut = 1 + w(seed, 60 + i)[0] % (len(chunks) - 1)
                chunks = chunks[:cut] + [junk(tid, seed, 20 + i)] + chunks[cut:]
            out += chunks
            if extra & 2:
                out.append(junk(tid, seed, 5 + i))
        if extra & 4:
            out.append(junk(tid, seed, 9))
        out.append(ev(tid, name, 2, seed, 1))
    elif kind == 'callcut':
        # a call whose path lookup never finishes (the walk failed half-way, or its last records were lost)
        out.append(ev(tid, name, 1, seed, 0))
        chunks = EV.lookup_events(tid, w(seed, 10)[0], b'/private/var/db/uuidtext/' + path_text(seed, 0)[:100] + b'/a/long/tail/that/needs/more/chunks')
        out += chunks[:1 + k % max(len(chunks) - 1, 1)]
        if extra & 1:
            out.append(junk(tid, seed, 3))
        out.append(ev(tid, name, 2, seed, 1))
    elif kind == 'single':
        out.append(ev(tid, name, 3 if extra & 1 else 0, seed, 0))
    elif kind == 'dyld':
        slot = DYLD_STRING_OPS[name]
        sid = res['string_ids'][k % len(res['string_ids'])]
        text = domains.ascii_text(w(seed, 3), 80)
        if not extra & 1:
            out += EV.global_string_events(tid, w(seed, 4)[0], sid, text)
        a = list(w(seed, 0))
        a[slot] = sid
        out.append(E(tid, name, 1, args=a))
        out.append(ev(tid, name, 2, seed, 1))
    elif kind == 'newthread':
        child = res['child_tids'][k % len(res['child_tids'])]
        pid = res['pids'][k % len(res['pids'])]
        out.append(E(tid, 'TRACE_DATA_NEWTHREAD', 0, args=[child, pid, extra & 1, w(seed)[0]]))
        out.append(E(tid, 'TRACE_STRING_NEWTHREAD', 0, data=EV.text32(res['prefix'] + domains.ascii_text(w(seed, 1), 20))))
        if extra & 2:
            # the new thread starts logging at once (an exec copy takes over where the old thread was; a dump may begin here)
            out.append(ev(child, 'BSC_getpid', 1, seed, 5))
            out.append(ev(child, 'MACH_SCHED', 0, seed, 6))
            out.append(ev(child, 'BSC_getpid', 2, seed, 7))
    elif kind == 'exec':
        pid = res['pids'][k % len(res['pids'])]
        out.append(E(tid, 'TRACE_DATA_EXEC', 0, args=[pid, w(seed)[0], w(seed)[1], 0]))
        out.append(E(tid, 'TRACE_STRING_EXEC', 0, data=EV.text32(res['prefix'] + domains.ascii_text(w(seed, 1), 20))))
    elif kind == 'threadname':
        text = domains.ascii_text(w(seed, 1), 63)
        out += EV.threadname_events(tid, text, 'TRACE_STRING_THREADNAME_PREV' if extra & 1 else 'TRACE_STRING_THREADNAME')
    elif kind == 'globalstring':
        sid = res['string_ids'][k % len(res['string_ids'])]
        text = domains.ascii_text(w(seed, 3), 200)
        out += EV.global_string_events(tid, w(seed, 4)[0], sid, text)
    elif kind == 'tracesingle':
        out.append(ev(tid, name, 0, seed, 0))
    elif kind == 'sample':
        flags = w(seed)[0] % (1 << 14)
        if extra & 1:
            flags |= 0x08
        if extra & 2:
            flags |= 0x01
        out.append(E(tid, 'PERF_Event', 1, args=[flags, w(seed)[1] % 16, 0, 0]))
        if extra & 4:
            out.append(E(tid, 'PERF_THD_Data', 0, args=[res['pids'][0], tid, w(seed, 2)[0], w(seed, 2)[1]]))
        if extra & 8:
            out.append(E(tid, 'PERF_STK_UHdr', 0, args=[w(seed, 3)[0] % 512, w(seed, 3)[1] % 14, 0, 0]))
        for i in range(k):
            out.append(E(tid, 'PERF_STK_UData', 0, args=w(seed, 20 + i)))
        out.append(E(tid, 'PERF_Event', 2, args=[flags, w(seed)[1] % 16, 0, 0]))
    elif kind == 'fault':
        out.append(ev(tid, 'MACH_vmfault', 1, seed, 0))
        for i in range(k):
            kind_i = REAL_FAULT_KINDS[w(seed, 30 + i)[0] % 4]
            out.append(ev(tid, kind_i, 0, seed, 31 + i))
            if extra & 1:
                out.append(junk(tid, seed, i))
        out.append(ev(tid, 'MACH_vmfault', 2, seed, 1))
    elif kind == 'launch':
        out.append(ev(tid, 'DBG_DYLD_TIMING_LAUNCH_EXECUTABLE', 1, seed, 0))
        for i in range(k):
            out.append(ev(tid, LAUNCH_NESTED[w(seed, 40 + i)[0] % 4], 0, seed, 41 + i))
        out.append(ev(tid, 'DBG_DYLD_TIMING_LAUNCH_EXECUTABLE', 2, seed, 1))
    elif kind == 'raw':           # C04-style raw qualifier event
        out.append(ev(tid, name, k % 4, seed, 0))
    else:
        raise AssertionError(kind)
    return out


def op_strategy(names=None):
    pooled = names is not None
    names = names or ordinary_names()
    nm = st.sampled_from(names)
    seed = S.u64
    k3 = st.integers(0, 3)
    x = st.integers(0, 15)
    tsingle = st.sampled_from(['TRACE_DATA_THREAD_TERMINATE', 'TRACE_DATA_THREAD_TERMINATE_PID',
                               'TRACE_STRING_PROC_EXIT', 'TRACE_DATA_NEWTHREAD', 'TRACE_DATA_EXEC'])
    # with a small shared pool of names, lone ENDs and lone STARTs of those very calls are drawn on purpose (one thread's
    # unopened END while another thread is inside the same call)
    lone = [st.tuples(st.just('raw'), nm, seed, st.just(2), x), st.tuples(st.just('raw'), nm, seed, st.just(2), x),
            st.tuples(st.just('raw'), nm, seed, st.just(1), x)] if pooled else []
    return st.one_of(
        *lone,
        st.tuples(st.just('call'), nm, seed, k3, x),
        st.tuples(st.just('call'), nm, seed, k3, x),
        st.tuples(st.just('single'), nm, seed, k3, x),
        st.tuples(st.just('callcut'), st.one_of(nm, st.sampled_from(['BSC_open', 'BSC_stat64', 'BSC_rename', 'BSC_access'])), seed, k3, x),
        st.tuples(st.just('dyld'), st.sampled_from(sorted(DYLD_STRING_OPS)), seed, k3, x),
        st.tuples(st.just('newthread'), st.just(''), seed, k3, x),
        st.tuples(st.just('exec'), st.just(''), seed, k3, x),
        st.tuples(st.just('threadname'), st.just(''), seed, k3, x),
        st.tuples(st.just('globalstring'), st.just(''), seed, k3, x),
        st.tuples(st.just('tracesingle'), tsingle, seed, k3, x),
        st.tuples(st.just('sample'), st.just(''), seed, st.integers(0, 4), x),
        st.tuples(st.just('fault'), st.just(''), seed, k3, x),
        st.tuples(st.just('launch'), st.just(''), seed, st.integers(0, 6), x),
        st.tuples(st.just('raw'), st.one_of(nm, st.sampled_from(EV.TRACE_DOMAIN[:4] + ['BSC_pread_extended_info', 0x99990000])),
                  seed, st.integers(0, 3), x),
    ).map(list)


PROGRAM_TIDS = [0x101, 0x202, 0x303, 0x404]


def resources(i):
    """resources owned by program i: nobody else announces these child tids / pids / string ids"""
    return {'child_tids': [0x1000 * (i + 1) + j for j in range(3)], 'pids': [100 * (i + 1) + j for j in range(3)],
            'string_ids': [0x5000 * (i + 1) + j for j in range(3)], 'prefix': b'P%d_' % i}


def expand_program(i, ops, partition=False):
    tid = PROGRAM_TIDS[i]
    res = resources(i)
    out = []
    for op in ops:
        out += expand_op(tid, list(op), res)
    return partition_fix(tid, res, out) if partition else out


TABLE_WRITERS = {'PERF_THD_Data': (1, 0), 'TRACE_DATA_NEWTHREAD': (0, 1), 'TRACE_DATA_EXEC': (None, 0),
                 'TRACE_DATA_THREAD_TERMINATE': (0, None)}


def partition_fix(tid, res, evs):
    """records that write (or read) the shared thread/process tables under a key taken from their arguments get
    keys owned by this program, so that programs never touch each other's entries (C05's precondition)"""
    out = []
    for e in evs:
        if e[1] in TABLE_WRITERS and len(e[3]) == 32:
            tslot, pslot = TABLE_WRITERS[e[1]]
            a = [int.from_bytes(e[3][8 * k:8 * k + 8], 'little') for k in range(4)]
            if tslot is not None:
                own = [tid] + res['child_tids']
                a[tslot] = own[a[tslot] % len(own)]
            if pslot is not None:
                a[pslot] = res['pids'][a[pslot] % len(res['pids'])]
            e = [e[0], e[1], e[2], b''.join(x.to_bytes(8, 'little') for x in a)]
        out.append(e)
    return out


def programs_strategy(min_threads=1, max_threads=3, max_ops=6, names=None):
    return st.lists(st.lists(op_strategy(names), min_size=1, max_size=max_ops), min_size=min_threads,
                    max_size=max_threads)


def merge(programs, schedule):
    """interleave per-thread event lists following `schedule` (list of thread indexes; exhausted threads are
    skipped, leftovers appended in thread order)"""
    pos = [0] * len(programs)
    out = []
    for s in schedule:
        i = s % len(programs)
        if pos[i] < len(programs[i]):
            out.append(programs[i][pos[i]])
            pos[i] += 1
    for i, p in enumerate(programs):
        out += p[pos[i]:]
    return out
