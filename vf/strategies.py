"""Common hypothesis strategies."""
from hypothesis import strategies as st

M64 = (1 << 64) - 1
BOUNDARY64 = [0, 1, 2, 3, 0x7f, 0x80, 0xff, 0x100, 0xffff, 0x10000, 2 ** 31 - 1, 2 ** 31, 2 ** 31 + 1,
              2 ** 32 - 1, 2 ** 32, 2 ** 32 + 1, 2 ** 63 - 1, 2 ** 63, 2 ** 63 + 1, 2 ** 64 - 2, 2 ** 64 - 1]
BOUNDARY32 = [0, 1, 2, 3, 4, 0xff, 0x100, 0xffff, 0x10000, 2 ** 31 - 1, 2 ** 31, 2 ** 32 - 4, 2 ** 32 - 1]

u64 = st.one_of(st.sampled_from(BOUNDARY64), st.integers(0, M64), st.integers(0, 300))
u32 = st.one_of(st.sampled_from(BOUNDARY32), st.integers(0, 2 ** 32 - 1), st.integers(0, 300))
small = st.integers(0, 300)
qual = st.integers(0, 3)


def data32():
    return st.one_of(st.binary(min_size=32, max_size=32),
                     st.tuples(u64, u64, u64, u64).map(lambda a: b''.join(x.to_bytes(8, 'little') for x in a)))


FILE_MAGICS = [bytes.fromhex(h) for h in ('0002aa55', '0003aa55', '55aa0200', '55aa0300', '001d0000', '001e0000', '00200000', '001c0000',
                                            '0002aa5500000000', '0100000055aa0200')]


def record64():
    """64 bytes: raw random or structured with boundary-biased fields"""
    structured = st.tuples(u64, data32(), u64, u32, u32, u64).map(
        lambda t: t[0].to_bytes(8, 'little') + t[1] + t[2].to_bytes(8, 'little') + t[3].to_bytes(4, 'little')
        + t[4].to_bytes(4, 'little') + t[5].to_bytes(8, 'little'))
    # a record whose first bytes read like a file/chunk magic of the dump formats (a timestamp is any 64-bit word)
    magic = st.tuples(st.sampled_from(FILE_MAGICS), st.binary(min_size=64, max_size=64)).map(lambda t: t[0] + t[1][len(t[0]):])
    return st.one_of(st.binary(min_size=64, max_size=64), structured, structured, magic)


name_alphabet = st.characters(min_codepoint=0x21, max_codepoint=0x7e)


def proc_name_bytes(max_bytes=19):
    """process names that fit the 20 byte field: utf-8, no NUL, at most 19 bytes"""
    ascii_name = st.text(name_alphabet, min_size=0, max_size=max_bytes).map(lambda s: s.encode())
    uni = st.text(st.characters(min_codepoint=0x20, max_codepoint=0x2fff, exclude_categories=('Cs', 'Cc')),
                  min_size=0, max_size=max_bytes).map(lambda s: s.encode('utf8')).filter(lambda b: len(b) <= max_bytes)
    # names are carried as stored: also text that is not in a normal form (decomposed accents as file systems hand them out)
    raw = st.lists(st.sampled_from(['e\u0301', 'A\u030a', '\u212b', 'n\u0303', 'Caf', 'x', '.', '\ufb01']), min_size=1, max_size=4).map(
        lambda l: ''.join(l).encode('utf8')).filter(lambda b: len(b) <= max_bytes)
    return st.one_of(ascii_name, ascii_name, uni, raw)


def expand_words(seed, k=0):
    """four 64-bit words derived deterministically from one drawn seed (splitmix64); small seeds give small words"""
    if seed < 4096:
        return ((seed + k) % 7, (seed >> 2) + k, (seed >> 4) % 5, seed % 3)
    out = []
    x = (seed + 0x9e3779b97f4a7c15 * (k + 1)) & M64
    for _ in range(4):
        x = (x + 0x9e3779b97f4a7c15) & M64
        z = x
        z = ((z ^ (z >> 30)) * 0xbf58476d1ce4e5b9) & M64
        z = ((z ^ (z >> 27)) * 0x94d049bb133111eb) & M64
        out.append(z ^ (z >> 31))
    return tuple(out)
