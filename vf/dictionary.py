"""Magic values read off the code under test (the fuzzing dictionary): integer constants a decoder can reach and path-like
string constants of the package source. A decoder that special-cases a value spells that value somewhere in its own code,
so generated inputs include those values instead of waiting for a random 64-bit word to hit them."""
import ast
import enum
import functools
import types

from .core import REPO_ROOT


def _code_ints(code, out, names, depth=0):
    for c in code.co_consts:
        if isinstance(c, int) and not isinstance(c, bool):
            out.add(c)
        elif isinstance(c, (tuple, frozenset)):
            out.update(x for x in c if isinstance(x, int) and not isinstance(x, bool))
        elif isinstance(c, types.CodeType) and depth < 3:
            _code_ints(c, out, names, depth + 1)
    names.update(code.co_names)


def _reach(obj, glob, out, seen, depth):
    if depth > 3 or id(obj) in seen:
        return
    seen.add(id(obj))
    if isinstance(obj, functools.partial):
        _reach(obj.func, glob, out, seen, depth)
        for a in list(obj.args) + list(obj.keywords.values()):
            _reach(a, glob, out, seen, depth + 1)
        return
    names = set()
    if isinstance(obj, types.FunctionType):
        _code_ints(obj.__code__, out, names)
        glob = obj.__globals__
    elif isinstance(obj, (staticmethod, classmethod)):
        _reach(obj.__func__, glob, out, seen, depth)
        return
    elif isinstance(obj, type):
        if issubclass(obj, enum.Enum):
            if len(obj.__members__) <= 12:
                out.update(m.value for m in obj.__members__.values() if isinstance(m.value, int))
            return
        for v in vars(obj).values():
            if isinstance(v, (types.FunctionType, staticmethod, classmethod, property)):
                _reach(v.fget if isinstance(v, property) else v, glob, out, seen, depth + 1)
        return
    elif isinstance(obj, dict):
        for k, v in list(obj.items())[:64]:
            for x in (k, v):
                if isinstance(x, int) and not isinstance(x, bool):
                    out.add(x)
        return
    elif isinstance(obj, (list, tuple, set, frozenset)):
        out.update(x for x in list(obj)[:64] if isinstance(x, int) and not isinstance(x, bool))
        return
    elif isinstance(obj, int) and not isinstance(obj, bool):
        out.add(obj)
        return
    for n in names:
        if n in glob and not isinstance(glob[n], types.ModuleType):
            _reach(glob[n], glob, out, seen, depth + 1)


_cache = {}


def magic_table(handlers, limit=16):
    """{decoder name: integers >= 16 that this decoder can reach} — its own constants, the module-level tables and
    constants it names, the methods of the classes it builds (depth 3) — MINUS what more than a dozen decoders of the
    same table reach as well (shared helpers such as the errno table): what is left is specific to the decoder"""
    key = id(handlers)
    if key not in _cache:
        reach = {}
        for name, h in handlers.items():
            out = set()
            try:
                _reach(h, getattr(h, '__globals__', {}), out, set(), 0)
            except Exception:  # noqa: introspection is best effort; the dictionary only ADDS cases
                pass
            reach[name] = {v for v in out if 16 <= v < 1 << 64}
        freq = {}
        for vals in reach.values():
            for v in vals:
                freq[v] = freq.get(v, 0) + 1
        table = {}
        for name, vals in reach.items():
            own = sorted(v for v in vals if freq[v] <= 12)
            table[name] = own if len(own) <= limit else own[::max(1, len(own) // limit)][:limit]
        _cache[key] = table
    return _cache[key]


@functools.lru_cache(maxsize=None)
def path_tokens():
    """path-like string constants of the package source (contain '/', printable ASCII, no quote, comma or blank)"""
    out = set()
    for p in sorted((REPO_ROOT / 'pykdebugparser').rglob('*.py')):
        if p.name == '__main__.py':
            continue
        try:
            tree = ast.parse(p.read_text())
        except SyntaxError:
            continue
        for n in ast.walk(tree):
            if isinstance(n, ast.Constant) and isinstance(n.value, str):
                v = n.value
                if 2 <= len(v) <= 32 and '/' in v and v.isascii() and v.isprintable() and not set(v) & set('"\', ()*'):
                    out.add(v)
    return sorted(out)


@functools.lru_cache(maxsize=None)
def size_constants(lo=100, hi=1 << 20):
    """integer constants between `lo` and `hi` in the package's non-decoder modules (pairing, container reading, listings,
    callstacks): candidate block sizes, caps and limits. Generators use them (+ a few) as record / thread / window counts."""
    out = set()
    for p in sorted((REPO_ROOT / 'pykdebugparser').glob('*.py')):
        try:
            tree = ast.parse(p.read_text())
        except SyntaxError:
            continue
        for n in ast.walk(tree):
            if isinstance(n, ast.Constant) and isinstance(n.value, int) and not isinstance(n.value, bool) and lo <= n.value <= hi:
                out.add(n.value)
    return sorted(out)
