"""Per-decoder argument domains: "each of its own fields is in the range the decoder names".

Hand-written (DESIGN.md 3.2) from the enumerations the decoders declare and Darwin's headers; every slot that
is not listed is a free 64-bit word. This table is ground truth, not learned by probing.
"""
from hypothesis import strategies as st

from . import darwin, strategies as S

R = lambda a, b: list(range(a, b + 1))  # noqa: E731

# name -> {slot: allowed values}   (START record)
START = {
    'BSC_csops': {1: R(0, 16)}, 'BSC_csops_audittoken': {1: R(0, 16)},
    'BSC_fs_snapshot': {0: R(1, 6)},
    'BSC_getpriority': {0: R(0, 6)}, 'BSC_setpriority': {0: R(0, 6)},
    'BSC_getrusage': {0: [0, 0xffffffff, 2 ** 64 - 1, 2 ** 32]},     # int32: RUSAGE_SELF / RUSAGE_CHILDREN
    'BSC_proc_info': {0: R(1, 15)},
    'BSC_sigaction': {0: R(1, 31)},
    'BSC_sigprocmask': {0: R(1, 3)},
    'BSC_socket': {0: sorted(darwin.AF), 1: R(1, 5)},
    'BSC_socketpair': {0: sorted(darwin.AF), 1: R(1, 5)},
    'BSC_socket_delegate': {0: sorted(darwin.AF), 1: R(1, 5)},
    'BSC_sys_fcntl': {1: darwin.FCNTL_CMDS}, 'BSC_sys_fcntl_nocancel': {1: darwin.FCNTL_CMDS},
    'MSC_mach_port_allocate_trap': {1: R(0, 5)},
    'MSC_mach_port_mod_refs_trap': {2: R(0, 5)},
    'MSC_mach_port_insert_right_trap': {3: R(16, 22)},
    'MSC_mach_port_get_attributes_trap': {2: R(1, 7)},
    'MSC_thread_switch': {1: R(0, 5)},
    'MSC_mk_timer_arm_leeway': {1: R(0, 1)},
    'INTERRUPT': {3: R(0, 4)},
    'TURNSTILE_turnstile_prepare': {2: R(0, 9)}, 'TURNSTILE_turnstile_complete': {2: R(0, 9)},
}
# END record
END = {
    'MSC_semaphore_timedwait_trap': {0: R(0, 53)},
    'MACH_IDLE': {1: R(0, 6)},
}

IOC_DIRS = sorted(darwin.IOC_DIR_NAMES)


def ioctl_request():
    return st.tuples(st.sampled_from(IOC_DIRS), st.integers(0, 255), st.integers(0, 255),
                     st.one_of(st.integers(0, 0x1fff), st.sampled_from([0, 1, 0xfff, 0x1000, 0x1001, 0x1fff]))).map(
        lambda t: (t[0] | (t[3] << 16) | (t[1] << 8) | t[2]) & 0xffffffff)


def real_fault_word():
    """RealFaultAddress* arg1: fault type 1..11 in the low byte, caller protection in the next, pid above"""
    return st.tuples(st.integers(1, 11), st.integers(0, 255), S.u32).map(lambda t: t[0] | (t[1] << 8) | (t[2] << 16))


def start_args(name):
    """strategy of the four START words of `name` (in-domain)"""
    slots = [S.u64, S.u64, S.u64, S.u64]
    for k, vals in START.get(name, {}).items():
        slots[k] = st.sampled_from(vals)
    if name == 'BSC_ioctl':
        slots[1] = ioctl_request()
    if name in ('RealFaultAddressInternal', 'RealFaultAddressExternal', 'RealFaultAddressSharedCache',
                'RealFaultAddressPurgeable'):
        slots[1] = real_fault_word()
    base = st.tuples(*slots).map(list)
    if name in ('BSC_setsockopt', 'BSC_getsockopt'):
        sol = st.tuples(S.u64, st.just(darwin.SOL_SOCKET), st.sampled_from(sorted(darwin.SO)), S.u64).map(list)
        other = base.filter(lambda a: a[1] != darwin.SOL_SOCKET)
        return st.one_of(sol, other)
    return base


def end_args(name):
    slots = [S.u64, S.u64, S.u64, S.u64]
    for k, vals in END.get(name, {}).items():
        slots[k] = st.sampled_from(vals)
    base = st.tuples(*slots).map(list)
    if name == 'MACH_vmfault':
        ok = st.tuples(S.u64, S.u64, st.just(0), st.integers(1, 11)).map(list)
        fail = st.tuples(S.u64, S.u64, st.integers(1, 2 ** 64 - 1), S.u64).map(list)
        return st.one_of(ok, ok, fail)
    return base


def is_in_domain(name, q_is_end, args):
    """used by generators that draw raw words for arbitrary codes"""
    table = END if q_is_end else START
    for k, vals in table.get(name, {}).items():
        if args[k] not in vals:
            return False
    return True


# ----------------------------------------------------------------------------- projection of raw words onto the domain

ASCII = b'abcdefghijklmnopqrstuvwxyzABCDEFGHIJKLMNOPQRSTUVWXYZ0123456789/._-'
STRING_RECORDS = {'TRACE_STRING_NEWTHREAD', 'TRACE_STRING_EXEC', 'TRACE_STRING_PROC_EXIT', 'TRACE_STRING_THREADNAME',
                  'TRACE_STRING_THREADNAME_PREV'}
REAL_FAULT = {'RealFaultAddressInternal', 'RealFaultAddressExternal', 'RealFaultAddressSharedCache',
              'RealFaultAddressPurgeable'}


def ascii_text(words, n):
    """deterministic ASCII text of up to n bytes from raw words (length and content both derived)"""
    w = words[0] ^ (words[1] << 1) ^ (words[2] << 2) ^ (words[3] << 3)
    length = w % (n + 1)
    out = bytearray()
    x = w | 1
    for _ in range(length):
        x = (x * 6364136223846793005 + 1442695040888963407) % (1 << 64)
        out.append(ASCII[(x >> 33) % len(ASCII)])
    return bytes(out)


def project(name, q, words):
    """raw 4 words -> 32 data bytes that are in-domain for record (name, qualifier)"""
    a = [w & (2 ** 64 - 1) for w in words]
    is_start = q in (0, 1, 3)
    is_end = q in (0, 2, 3)
    if name in STRING_RECORDS:
        return (ascii_text(a, 32) + bytes(32))[:32]
    if name == 'VFS_LOOKUP':
        if q & 1:
            return a[0].to_bytes(8, 'little') + (ascii_text(a, 24) + bytes(24))[:24]
        return (ascii_text(a, 32) + bytes(32))[:32]
    if name == 'TRACE_STRING_GLOBAL':
        if q & 1:
            return a[0].to_bytes(8, 'little') + a[1].to_bytes(8, 'little') + (ascii_text(a, 16) + bytes(16))[:16]
        return (ascii_text(a, 32) + bytes(32))[:32]
    if is_start:
        for k, vals in START.get(name, {}).items():
            a[k] = vals[a[k] % len(vals)]
        if name == 'BSC_ioctl':
            a[1] = (IOC_DIRS[a[1] % 5] | (a[1] & 0x1fffffff)) & 0xffffffff
            if (a[1] & 0xe0000000) not in IOC_DIRS:     # len bit 28 may have produced IOC_DIRMASK-like patterns
                a[1] &= 0xefffffff
        if name in ('BSC_setsockopt', 'BSC_getsockopt'):
            if a[1] % 2:
                so = sorted(darwin.SO)
                a[1], a[2] = darwin.SOL_SOCKET, so[a[2] % len(so)]
            elif a[1] == darwin.SOL_SOCKET:
                a[1] = 6
    if name in REAL_FAULT:
        # the packed word of a real-fault record is the record's own (these records carry no START/END meaning): its
        # fault type is in range whatever qualifier bits the record has
        a[1] = (a[1] & ~0xff) | (1 + a[1] % 11)
    if is_end:
        for k, vals in END.get(name, {}).items():
            a[k] = vals[a[k] % len(vals)]
        if name == 'MACH_vmfault':
            if a[2] % 3:
                a[2], a[3] = 0, 1 + a[3] % 11
            elif a[2] == 0:
                a[2] = 5
    return b''.join(x.to_bytes(8, 'little') for x in a)
