"""A reader that counts read calls: turns 'spins forever at end-of-file' into a deterministic failure."""
import io


class ReadBudgetExceeded(Exception):
    pass


class BudgetReader(io.BytesIO):
    def __init__(self, data, budget=None):
        super().__init__(data)
        self.calls = 0
        self.budget = budget if budget is not None else 8 * len(data) + 4096

    def _tick(self):
        self.calls += 1
        if self.calls > self.budget:
            raise ReadBudgetExceeded(f'{self.calls} read calls on a {len(self.getvalue())}-byte stream')

    def read(self, *a):
        self._tick()
        return super().read(*a)

    def read1(self, *a):
        self._tick()
        return super().read1(*a)

    def readinto(self, b):
        self._tick()
        return super().readinto(b)

    def readline(self, *a):
        self._tick()
        return super().readline(*a)


import contextlib
import os
import time

HOST_ZONES = [None, 'UTC0', 'JST-9', 'EST5EDT,M3.2.0,M11.1.0', 'NST3:30NDT,M3.2.0,M11.1.0', 'XXX-14', 'YYY12']


@contextlib.contextmanager
def host_tz(zone):
    """run the body as on a host whose local time zone is `zone` (POSIX TZ string; None = leave the host as it is).
    Decoded instants and rendered dates are specified in UTC or in an explicitly given zone, never in the host's."""
    if zone is None:
        yield
        return
    old = os.environ.get('TZ')
    os.environ['TZ'] = zone
    time.tzset()
    try:
        yield
    finally:
        if old is None:
            os.environ.pop('TZ', None)
        else:
            os.environ['TZ'] = old
        time.tzset()


def zoned(prop):
    """the property evaluated on a host whose local zone is case['zone']"""
    def run(ctx, case):
        with host_tz(case.get('zone')):
            return prop(ctx, case)
    run.__name__ = prop.__name__
    run.__doc__ = prop.__doc__
    return run
