"""A reader that counts read calls: turns 'spins forever at end-of-file' into a deterministic failure."""
import io


class ReadBudgetExceeded(Exception):
    pass


class BudgetReader(io.BytesIO):
    def __init__(self, data, budget=None):
        super().__init__(data)
        self.calls = 0
        self.budget = budget if budget is not None else 8 * len(data) + 4096

    def _tick(self):
        self.calls += 1
        if self.calls > self.budget:
            raise ReadBudgetExceeded(f'{self.calls} read calls on a {len(self.getvalue())}-byte stream')

    def read(self, *a):
        self._tick()
        return super().read(*a)

    def read1(self, *a):
        self._tick()
        return super().read1(*a)

    def readinto(self, b):
        self._tick()
        return super().readinto(b)

    def readline(self, *a):
        self._tick()
        return super().readline(*a)
