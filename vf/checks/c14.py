"""C14 — lines name the process the dump declares for the thread; columns compose."""
import itertools
import re

from hypothesis import strategies as st

import datetime
from fractions import Fraction

from .. import cli as CLI, events as EV, files, kmodel, logs, scenario as SC, strategies as S
from ..core import Violation, guard
from ..io_util import BudgetReader, HOST_ZONES, zoned

ID = 'C14'
RULE = ('dumps: version-2 files from scenario programs of 1..3 threads (thread maps with duplicate tids/pids and threads '
        'absent from the map) whose streams carry map-updating records (new-thread data+string pairs, exec pairs, '
        'terminate-pid, sampler thread-info) between ordinary operations; version-3 files with log blocks. Config = the '
        'six show_* switches (thorough: all 64 per dump; quick: the 7 basis configurations + 12 generated) x colour. '
        'Oracle: (1) composition: line(cfg) == concatenation in fixed order of the single-switch segments + the '
        'all-off body, for the event, trace, callstack (first line) and log listings; (2) stripping SGR escapes from '
        'the coloured line gives the uncoloured line (traces, logs); (3) the process column is name(pid) of a '
        'plain-loop model (thread map, superseded by new-thread, exec, terminate-pid and sampler records) just before '
        'or just after the triggering event, and an undeclared thread is never given a declared pid or name; '
        '(4) every column the listing prints with all switches on has a non-empty segment carrying the modelled '
        'content (timestamp, code name, qualifier, tid, name(pid), argument bytes; log date); (5) the same parser object '
        'formatting a second, map-less dump reads as a fresh object, and two objects whose listings are read alternately do not influence each other. New-thread records may re-declare a logging thread and '
        'lose their name record. clock: with the five time-base attributes set the timestamp column is a date within max(2 us, 2^-50 relative) of '
        'usecs_since_epoch + (ts - mach_absolute_time) * numer / denom / 1000 in the given zone, columns still compose, and an '
        'incomplete time base shows the tick count (log dates and clock dates on hosts of 7 local time zones); cli: --show-tid / --color of the command line. Non-trivial: the stream '
        'changes the attribution of a thread that later emits a line, or a line belongs to an undeclared thread; '
        'distinct by (file, configs).')
ASSUMPTIONS = ['A2: names and paths shown have no leading/trailing whitespace and no control characters',
               'the wording of the "unknown thread" marker is not constrained']

SW = ['show_timestamp', 'show_name', 'show_func_qual', 'show_tid', 'show_process', 'show_args']
SGR = re.compile(r'\x1b\[[0-9;]*m')
MAP_WRITERS = {'TRACE_DATA_NEWTHREAD', 'TRACE_DATA_EXEC', 'TRACE_STRING_NEWTHREAD', 'TRACE_STRING_EXEC',
               'TRACE_DATA_THREAD_TERMINATE_PID', 'PERF_THD_Data'}
QUAL = ['DBG_FUNC_NONE', 'DBG_FUNC_START', 'DBG_FUNC_END', 'DBG_FUNC_ALL']


def parser_with(cfg, color=False, clock=None):
    from pykdebugparser.pykdebugparser import PyKdebugParser
    p = PyKdebugParser()
    for k, v in zip(SW, cfg):
        setattr(p, k, bool(v))
    p.color = color
    if clock is not None:
        # wall-clock rendering of kernel timestamps: the five public attributes a caller fills from the dump header
        p.mach_absolute_time, p.numer, p.denom, p.usecs_since_epoch = clock['mat'], clock['numer'], clock['denom'], clock['usecs']
        p.timezone = datetime.timezone(datetime.timedelta(minutes=clock['tz_minutes']))
    return p


def listing(kind, blob, cfg, color=False, clock=None):
    p = parser_with(cfg, color, clock)
    fn = {'kevents': p.formatted_kevents, 'traces': p.formatted_traces, 'callstacks': p.formatted_callstacks,
          'logs': p.formatted_logs}[kind]
    return [str(x) for x in fn(BudgetReader(blob))]


def basis():
    off = (0,) * 6
    return [off] + [tuple(1 if j == i else 0 for j in range(6)) for i in range(6)]


def check_composition(kind, blob, cfgs, clock=None):
    base = {cfg: guard(listing, kind, blob, cfg, False, clock) for cfg in basis()}
    body = base[(0,) * 6]
    n = len(body)
    segs = []
    for i in range(6):
        one = base[tuple(1 if j == i else 0 for j in range(6))]
        if len(one) != n:
            raise Violation(f'line-count:{kind}', f'{SW[i]} alone changes the number of lines: {len(one)} vs {n}')
        col = []
        for a, b in zip(one, body):
            a0, b0 = a.split('\n')[0], b.split('\n')[0]
            if not a0.endswith(b0) or a.split('\n')[1:] != b.split('\n')[1:]:
                raise Violation(f'column-alters-body:{kind}:{SW[i]}', f'{kind}: with only {SW[i]} on the line is {a!r}, with all off {b!r}')
            col.append(a0[:len(a0) - len(b0)])
        segs.append(col)
    for cfg in cfgs:
        lines = guard(listing, kind, blob, cfg, False, clock)
        if len(lines) != n:
            raise Violation(f'line-count:{kind}', f'config {cfg} changes the number of lines: {len(lines)} vs {n}')
        for k, line in enumerate(lines):
            exp = ''.join(segs[i][k] for i in range(6) if cfg[i]) + body[k]
            if line != exp:
                raise Violation(f'composition:{kind}', f'{kind} line {k} under {dict(zip(SW, cfg))}: {line!r}, composed from the single-column '
                                                       f'segments: {exp!r}')
    return body, segs


# ----------------------------------------------------------------------------- v2 stream with attribution model

def build_stream(spec):
    progs = []
    for i, ops in enumerate(spec['programs']):
        p = SC.expand_program(i, ops, partition=True)
        keep = []
        for e, op_kind in tag_ops(i, ops):
            if e[1] in MAP_WRITERS and op_kind in ('call', 'single', 'raw'):
                continue          # map-updating records only as the NONE-qualified records the kernel emits
            keep.append(e)
        progs.append(keep)
    # a new-thread record may declare a thread that is itself logging (another program's thread), and its name
    # record may be missing from the dump
    n, occ = len(progs), 0
    for i, p in enumerate(progs):
        out = []
        for e in p:
            if e[1] == 'TRACE_DATA_NEWTHREAD' and e[2] == 0:
                occ += 1
                if spec.get('retarget', 0) >> (occ % 8) & 1:
                    a = [int.from_bytes(e[3][8 * k:8 * k + 8], 'little') for k in range(4)]
                    a[0] = SC.PROGRAM_TIDS[(i + 1 + occ) % max(n, 1)]
                    e = [e[0], e[1], e[2], b''.join(x.to_bytes(8, 'little') for x in a)]
            if e[1] == 'TRACE_STRING_NEWTHREAD' and spec.get('drop_names', 0) >> (occ % 8) & 1:
                continue
            if e[1] == 'PERF_THD_Data' and e[2] == 0:
                # the sampler describes the thread its record NAMES: usually the sampled thread itself, but also thread 0
                # or another logging thread
                occ += 1
                mode = (spec.get('retarget', 0) >> (occ % 7)) & 3
                if mode in (1, 2):
                    a = [int.from_bytes(e[3][8 * k:8 * k + 8], 'little') for k in range(4)]
                    a[1] = 0 if mode == 1 else SC.PROGRAM_TIDS[(i + occ) % max(n, 1)]
                    e = [e[0], e[1], e[2], b''.join(x.to_bytes(8, 'little') for x in a)]
            out.append(e)
        progs[i] = out
    evs = SC.merge(progs, spec['schedule'])
    tm = []
    # the 20-byte name field may hold stale bytes behind the terminator (strlcpy into a reused buffer): they are not
    # part of the name
    tail = [b'', b'', b'iaserverd', b'\x01x', b'ask'][spec.get('retarget', 0) % 5]
    for i in range(len(progs)):
        if spec['map_mask'] >> i & 1:
            tm.append((SC.PROGRAM_TIDS[i], 100 * (i + 1), b'P%d_main' % i, tail))
    for tid_i, pid, nm in spec['extra_map']:
        tm.append((SC.PROGRAM_TIDS[tid_i % 4], pid, nm, tail[:19 - len(nm)]))
    recs = [kmodel.ev_record((1001 + 7 * k, tid, (EV.eid(code) & ~3) | q, data)) for k, (tid, code, q, data) in enumerate(evs)]
    return kmodel.v2_file(tm, 0, recs), evs, tm


def tag_ops(i, ops):
    res = SC.resources(i)
    tid = SC.PROGRAM_TIDS[i]
    out = []
    for op in ops:
        for e in SC.partition_fix(tid, res, SC.expand_op(tid, list(op), res)):
            out.append((e, op[0]))
    return out


def arg(e, i):
    return int.from_bytes(e[3][8 * i:8 * i + 8], 'little')


def model_states(evs, tm):
    """attribution tables before event 0 and after each event: list of (tp, pn) snapshots"""
    tp, pn = {}, {}
    for tid, pid, nm, *_ in tm:
        tp[tid] = pid
        pn[pid] = nm.decode()
    snaps = [(dict(tp), dict(pn))]
    pending_new, pending_exec = {}, {}
    # K2 (known finding): the tool applies the thread-info record of a sampler window a second time when the window ENDs.
    # alt_tp is the thread table WITH that second application; it is used only to recognise the finding, never to accept a line
    alt_tp, open_sample = dict(tp), {}
    ALT[:] = [dict(alt_tp)]
    for tid, code, q, data in evs:
        single = q in (0, 3)
        if code == 'PERF_Event' and q == 1:
            open_sample[tid] = [bool(arg((tid, code, q, data), 0) & 1), None]
        elif code == 'PERF_Event' and q == 2 and tid in open_sample:
            wants, first = open_sample.pop(tid)
            if wants and first is not None:
                alt_tp[first[0]] = first[1]
        elif code == 'PERF_THD_Data' and tid in open_sample and open_sample[tid][1] is None:
            open_sample[tid][1] = (arg((tid, code, q, data), 1), arg((tid, code, q, data), 0))
        if single and code == 'TRACE_DATA_NEWTHREAD':
            tp[arg((tid, code, q, data), 0)] = arg((tid, code, q, data), 1)
            pending_new[tid] = arg((tid, code, q, data), 1)
        elif single and code == 'TRACE_STRING_NEWTHREAD':
            if tid in pending_new:
                pn[pending_new.pop(tid)] = bytes(data).replace(b'\x00', b'').decode()
        elif single and code == 'TRACE_DATA_EXEC':
            pending_exec[tid] = arg((tid, code, q, data), 0)
        elif single and code == 'TRACE_STRING_EXEC':
            if tid in pending_exec:
                pn[pending_exec.pop(tid)] = bytes(data).replace(b'\x00', b'').decode()
        elif single and code == 'TRACE_DATA_THREAD_TERMINATE_PID':
            tp[tid] = arg((tid, code, q, data), 0)
        elif single and code == 'PERF_THD_Data':
            tp[arg((tid, code, q, data), 1)] = arg((tid, code, q, data), 0)
        if single and code in ('TRACE_DATA_NEWTHREAD', 'PERF_THD_Data'):
            alt_tp[arg((tid, code, q, data), 0 if code == 'TRACE_DATA_NEWTHREAD' else 1)] = arg((tid, code, q, data), 1 if code == 'TRACE_DATA_NEWTHREAD' else 0)
        elif single and code == 'TRACE_DATA_THREAD_TERMINATE_PID':
            alt_tp[tid] = arg((tid, code, q, data), 0)
        snaps.append((dict(tp), dict(pn)))
        ALT.append(dict(alt_tp))
    return snaps


ALT = []      # per event index: thread table with K2's second application (filled by model_states)


def proc_text(state, tid):
    tp, pn = state
    if tid not in tp:
        return None
    return f'{pn.get(tp[tid], "")}({tp[tid]})'


def prop_v2(ctx, case):
    blob, evs, tm = build_stream(case['spec'])
    cfgs = [tuple(c) for c in case['configs']]
    if case['all64']:
        cfgs = list(itertools.product((0, 1), repeat=6))
    snaps = model_states(evs, tm)
    declared_names = {n for s in snaps for n in s[1].values()} | {t[2].decode() for t in tm}
    declared_pids = {p for s in snaps for p in s[0].values()}
    cls = set()
    # ---- kevents
    body, segs = check_composition('kevents', blob, cfgs)
    byid = EV.by_id()
    for k, e in enumerate(evs):
        tid, code, q, data = e
        ident = EV.eid(code) & ~3
        name = f'{byid[ident]} ({hex(ident)})' if ident in byid else hex(ident)
        expect = {0: {str(1001 + 7 * k)}, 1: {name}, 2: {QUAL[q]}, 3: {hex(tid), str(tid)}, 5: {str(bytes(data))}}
        for i, content in expect.items():
            if segs[i][k].strip() not in content:
                raise Violation(f'column-content:kevents:{SW[i]}', f'event {k}: column {SW[i]} shows {segs[i][k]!r}, expected {content!r}')
        check_process(segs[4][k].strip(), tid, [snaps[0], snaps[k], snaps[k + 1]], declared_names, declared_pids, 'kevents')
        if body[k] != '':
            raise Violation('body:kevents', f'event line with all columns off is {body[k]!r}')
    # ---- traces
    tbody, tsegs = check_composition('traces', blob, cfgs)
    from pykdebugparser.pykdebugparser import PyKdebugParser
    objs = guard(lambda: list(PyKdebugParser().traces(BudgetReader(blob))))
    if len(objs) != len(tbody):
        raise Violation('line-count:traces', 'traces() and formatted_traces() disagree')
    index_of_ts = {1001 + 7 * k: k for k in range(len(evs))}
    changed_then_used = False
    for k, (t, text) in enumerate(zip(objs, tbody)):
        first, last = t.ktraces[0], t.ktraces[-1]
        trig = index_of_ts[last.timestamp]
        if text != str(t):
            raise Violation('body:traces', f'trace body {text!r} is not the trace text {str(t)!r}')
        for i in (1, 2, 5):
            if tsegs[i][k] != '':
                raise Violation(f'column-content:traces:{SW[i]}', f'trace line grows by {tsegs[i][k]!r} with {SW[i]}')
        if tsegs[0][k].strip() != str(first.timestamp) or tsegs[3][k].strip() not in (str(first.tid), hex(first.tid)):
            raise Violation('column-content:traces', f'trace {k}: timestamp/tid columns {tsegs[0][k]!r} {tsegs[3][k]!r} expected {first.timestamp} {first.tid}')
        check_process(tsegs[4][k].strip(), first.tid, [snaps[trig], snaps[trig + 1]], declared_names, declared_pids, 'traces')
        if proc_text(snaps[trig + 1], first.tid) != proc_text(snaps[0], first.tid):
            changed_then_used = True
        if proc_text(snaps[trig + 1], first.tid) is None:
            cls.add('undeclared-thread-line')
    # colour
    cfg_on = (1, 1, 1, 1, 1, 1)
    plain = guard(listing, 'traces', blob, cfg_on, False)
    # ---- class / subclass filters choose WHICH lines are printed; a printed line still names the declared process
    # (the records that declare threads belong to class 7, whatever the caller asked to see)
    heads = {}
    for k in range(len(tbody)):
        heads[tsegs[0][k] + tsegs[3][k]] = tsegs[0][k] + tsegs[3][k] + tsegs[4][k]
    # (sampler records are class 0x25: a request that leaves that class out does not read them, and the statement does not
    # say it should; streams with sampler declarations are therefore compared under filter sets that include the class)
    sampler = any(e[1] == 'PERF_THD_Data' for e in evs)
    for fc, fs in ([[], [0x0701]], [[], [0x0700]], [[4], []], [[1], [0x0701]], [[0x25, 0x1f], []], [[], [0x040c, 0x0701]])[case['spec'].get('retarget', 0) % 2::2]:
        if sampler:
            fc = fc + [0x25]
        pf = parser_with(cfg_on)
        pf.filter_class, pf.filter_subclass = list(fc), list(fs)
        for line in guard(lambda: [str(x) for x in pf.formatted_traces(BudgetReader(blob))]):
            key = next((h for h in heads if line.startswith(h)), None)
            if key is None or not line.startswith(heads[key]):
                raise Violation('process-column-under-filter', f'with class filter {fc} / subclass filter {fs} the line {line[:120]!r} does not begin with the '
                                                               f'timestamp, thread and process columns of the unfiltered listing ({heads.get(key)!r})')
    colour = guard(listing, 'traces', blob, cfg_on, True)
    if [SGR.sub('', x) for x in colour] != plain:
        k = next(i for i in range(len(plain)) if SGR.sub('', colour[i]) != plain[i]) if len(colour) == len(plain) else -1
        raise Violation('colour-changes-text:traces', f'line {k}: coloured {colour[k]!r} vs plain {plain[k]!r}' if k >= 0 else 'different number of lines')
    if colour and not any('\x1b[' in x for x in colour):
        ctx.notes.append('colour produced no escape sequences (FORCE_COLOR not effective?)')
    # ---- one parser object, two dumps: the second dump (same events, NO thread map) must read as on a fresh object
    recs2 = [kmodel.ev_record((1001 + 7 * k, tid, (EV.eid(code) & ~3) | q, data)) for k, (tid, code, q, data) in enumerate(evs)]
    blob2 = kmodel.v2_file([], 0, recs2)
    reused = parser_with(cfg_on)
    guard(lambda: sum(1 for _ in reused.formatted_traces(BudgetReader(blob))))
    second = guard(lambda: list(reused.formatted_traces(BudgetReader(blob2))))
    alone = guard(listing, 'traces', blob2, cfg_on)
    if second != alone:
        k = next((i for i in range(min(len(second), len(alone))) if second[i] != alone[i]), 0)
        raise Violation('attribution-leaks-between-dumps', f'a dump without thread map, formatted after another dump on the same object: line {k} '
                                                           f'{second[k:k + 1]} instead of {alone[k:k + 1]}')
    # ---- a request is bound to its dump when it is made: creating (not reading) another request on another dump in
    # between changes nothing
    lazy = parser_with(cfg_on)
    pending = guard(lambda: lazy.formatted_traces(BudgetReader(blob)))
    other = guard(lambda: lazy.formatted_traces(BudgetReader(blob2)))
    first = guard(lambda: list(pending))
    if first != plain:
        k = next((i for i in range(min(len(first), len(plain))) if first[i] != plain[i]), 0)
        raise Violation('request-rebound-to-later-dump', f'a listing read after another request was created on a second dump: line {k} '
                                                         f'{first[k:k + 1]} instead of {plain[k:k + 1]}')
    guard(lambda: list(other))
    # ---- two parser objects in one process, their listings read alternately (a side-by-side view of two dumps): each
    # line still names what ITS dump declares
    pa, pb = parser_with(cfg_on), parser_with(cfg_on)
    ga = guard(lambda: pa.formatted_traces(BudgetReader(blob)))
    gb = guard(lambda: pb.formatted_traces(BudgetReader(blob2)))
    la, lb = [], []

    def alternate():
        done = object()
        while True:
            x, y = next(ga, done), next(gb, done)
            if x is done and y is done:
                return
            if x is not done:
                la.append(x)
            if y is not done:
                lb.append(y)
    guard(alternate)
    for label, got, exp in (('with a thread map', la, plain), ('without a thread map', lb, alone)):
        if got != exp:
            k = next((i for i in range(min(len(got), len(exp))) if got[i] != exp[i]), min(len(got), len(exp)))
            raise Violation('attribution-shared-between-objects', f'two parser objects read alternately: line {k} of the dump {label} is '
                                                                  f'{got[k:k + 1]} instead of {exp[k:k + 1]}')
    # ---- callstacks
    cbody, csegs = check_composition('callstacks', blob, cfgs)
    cobjs = guard(lambda: list(PyKdebugParser().callstacks(BudgetReader(blob))))
    if len(cobjs) != len(cbody):
        raise Violation('line-count:callstacks', 'callstacks() and formatted_callstacks() disagree')
    for k, cs in enumerate(cobjs):
        # the sample's header line is stamped with the START record of its window: that record's thread is the emitting thread
        start = index_of_ts.get(int(csegs[0][k].strip())) if csegs[0][k].strip().isdigit() else None
        if start is None:
            raise Violation('column-content:callstacks', f'callstack {k}: timestamp column {csegs[0][k]!r} is not the timestamp of a record of the dump')
        etid = evs[start][0]
        if csegs[3][k].strip() not in (str(etid), hex(etid)):
            raise Violation('column-content:callstacks:show_tid', f'callstack {k} (window opened by record {start} of thread {etid:#x}): thread column {csegs[3][k]!r}')
        check_process(csegs[4][k].strip(), etid, [snaps[start], snaps[start + 1], snaps[-1]] + snaps[start:], declared_names, declared_pids, 'callstacks')
    for k in range(len(cbody)):
        for i in (1, 2, 5):
            if csegs[i][k] != '':
                raise Violation(f'column-content:callstacks:{SW[i]}', f'callstack line grows by {csegs[i][k]!r} with {SW[i]}')
        if not csegs[0][k].strip().isdigit() or not csegs[3][k].strip() or not csegs[4][k].strip():
            raise Violation('column-content:callstacks', f'callstack {k}: columns {csegs[0][k]!r} {csegs[3][k]!r} {csegs[4][k]!r}')
    if changed_then_used:
        cls.add('attribution-changed-before-line')
    cls.add(f'threads:{len(case["spec"]["programs"])}')
    if cbody:
        cls.add('has-callstacks')
    ctx.note(None, nontrivial=changed_then_used or 'undeclared-thread-line' in cls, classes=cls)


def check_process(col, tid, states, names, pids, kind):
    accepted = {proc_text(s, tid) for s in states}
    if col in accepted:
        return
    if None in accepted:
        # undeclared in at least one accepted reading: must not be attributed to any declared process
        m = re.match(r'^(.*)\((-?\d+)\)$', col)
        if m and (int(m.group(2)) in pids or m.group(1) == '' or m.group(1) in names):
            raise Violation(f'undeclared-thread-attributed:{kind}', f'thread {tid:#x} was never declared but its line says {col!r}')
        return
    names_now = states[-1][1]
    if any(tid in a and col == f'{names_now.get(a[tid], "")}({a[tid]})' for a in ALT):
        raise Violation('sampler-info-reapplied-at-window-end', f'{kind}: thread {tid:#x} is shown as {col!r}: a sampler thread-info record naming it was applied again at the END of '
                                                                f'its sampler window, after a later record had re-declared the thread ({sorted(a for a in accepted if a)})')
    raise Violation(f'process-column:{kind}', f'thread {tid:#x}: process column {col!r}, the dump declares {sorted(a for a in accepted if a)}')


# ----------------------------------------------------------------------------- logs (v3)

def prop_logs(ctx, case):
    spec = case['spec']
    blob = files.build_v3(spec)
    cfgs = [tuple(c) for c in case['configs']]
    if case['all64']:
        cfgs = list(itertools.product((0, 1), repeat=6))
    body, segs = check_composition('logs', blob, cfgs)
    recs = files.v3_all_logs(spec)
    strs = [t[1] for t in spec['table']]
    if len(body) != len(recs):
        raise Violation('line-count:logs', f'{len(body)} log lines for {len(recs)} records')
    tp, pn = files.expected_tables(spec['tm'])
    for k, r in enumerate(recs):
        msg = strs[r['cm']]
        if body[k] != msg:
            raise Violation('body:logs', f'log body {body[k]!r}, message {msg!r}')
        date = logs.expected_instant(r['ud'])
        if segs[0][k].strip()[:19] != date.strftime('%Y-%m-%d %H:%M:%S'):
            raise Violation('column-content:logs:show_timestamp', f'log {k}: timestamp column {segs[0][k]!r}, record date {date}')
        if segs[3][k].strip() not in (str(r['tid']), hex(r['tid'])):
            raise Violation('column-content:logs:show_tid', f'log {k}: thread column {segs[3][k]!r}, record thread {r["tid"]}')
        has_proc = 'p' in r and strs[r['p']] != ''
        if has_proc and r['tid']:
            # a log record that names a process and a thread declares that attribution (applied in record order)
            tp[r['tid']] = r.get('pid', 0)
            pn[r.get('pid', 0)] = strs[r['p']]
        if has_proc:
            col = segs[4][k].strip()
            if r['tid'] and col != f'{pn.get(tp[r["tid"]], "")}({tp[r["tid"]]})'.strip():
                raise Violation('process-column:logs', f'log {k}: process column {col!r}, the dump declares {pn.get(tp[r["tid"]])!r}({tp[r["tid"]]})')
            if not col:
                raise Violation('column-content:logs:show_process', f'log {k} names a process but the column is empty')
        for i in (1, 2, 5):
            if segs[i][k] != '':
                raise Violation(f'column-content:logs:{SW[i]}', f'log line grows by {segs[i][k]!r} with {SW[i]}')
    for cfg in ((1, 1, 1, 1, 1, 1), (1, 0, 0, 0, 1, 0)):
        plain = guard(listing, 'logs', blob, cfg, False)
        colour = guard(listing, 'logs', blob, cfg, True)
        if [SGR.sub('', x) for x in colour] != plain:
            k = next((i for i in range(min(len(plain), len(colour))) if SGR.sub('', colour[i]) != plain[i]), 0)
            raise Violation('colour-changes-text:logs', f'line {k}: coloured {colour[k]!r} vs plain {plain[k]!r}')
    ctx.note(None, nontrivial=any('p' in r for r in recs) and len(recs) >= 2, classes=['logs', f'records:{min(len(recs), 4)}'])


def prop_clock(ctx, case):
    """the timestamp column as a wall-clock date (the caller supplied the time base of the dump): columns still
    compose, and the date is the record's instant"""
    blob, evs, tm = build_stream(case['spec'])
    clock = case['clock']
    cfgs = [tuple(c) for c in case['configs']]
    tz = datetime.timezone(datetime.timedelta(minutes=clock['tz_minutes']))
    epoch = datetime.datetime.fromtimestamp(0, tz=tz).replace(tzinfo=None)

    def instant(ts):
        us = Fraction(clock['usecs']) + Fraction((ts - clock['mat']) * clock['numer'], clock['denom'] * 1000)
        return us

    def check_col(kind, k, col, ts):
        text = col.strip()
        try:
            shown = datetime.datetime.strptime(text, '%Y-%m-%d %H:%M:%S.%f')
        except ValueError:
            raise Violation(f'clock-column:{kind}', f'{kind} line {k}: with a time base set the timestamp column is {col!r}, not a date')
        got_us = Fraction((shown - epoch) // datetime.timedelta(microseconds=1))
        # the date is computed in double precision: 2 us, or 2^-50 of the distance from the epoch where that is more
        if abs(got_us - instant(ts)) > max(2, abs(instant(ts)) / 2 ** 50):
            raise Violation(f'clock-column:{kind}', f'{kind} line {k}: timestamp {ts} is shown as {text} ({int(got_us)} us since the epoch), the time base '
                                                    f'{clock} puts it at {float(instant(ts)):.1f} us (tolerance max(2 us, 2^-50 of the value))')
    body, segs = check_composition('kevents', blob, cfgs, clock)
    for k in range(len(evs)):
        check_col('kevents', k, segs[0][k], 1001 + 7 * k)
    tbody, tsegs = check_composition('traces', blob, cfgs, clock)
    from pykdebugparser.pykdebugparser import PyKdebugParser
    objs = guard(lambda: list(PyKdebugParser().traces(BudgetReader(blob))))
    if len(objs) != len(tbody):
        raise Violation('line-count:traces', 'traces() and formatted_traces() disagree')
    for k, t in enumerate(objs):
        check_col('traces', k, tsegs[0][k], t.ktraces[0].timestamp)
    cbody, csegs = check_composition('callstacks', blob, cfgs, clock)
    cobjs = guard(lambda: list(PyKdebugParser().callstacks(BudgetReader(blob))))
    if len(cobjs) != len(cbody):
        raise Violation('line-count:callstacks', 'callstacks() and formatted_callstacks() disagree')
    for k, c in enumerate(cobjs):
        check_col('callstacks', k, csegs[0][k], c.timestamp)
    # an incomplete time base (any one attribute missing) falls back to the raw tick count, never to a wrong date
    missing = case['missing']
    p = parser_with((1, 0, 0, 0, 0, 0), False, clock)
    setattr(p, missing, None)
    raw = guard(lambda: [str(x) for x in p.formatted_kevents(BudgetReader(blob))])
    for k, line in enumerate(raw):
        if line.strip() != str(1001 + 7 * k):
            raise Violation('clock-column:incomplete-time-base', f'with {missing} unset the timestamp column of event {k} is {line!r}, expected the tick count {1001 + 7 * k}')
    ctx.note([blob, clock, cfgs], nontrivial=len(evs) >= 2, classes=['clock', 'traces' if tbody else 'no-traces', 'callstacks' if cbody else 'no-callstacks'])


def prop_cli(ctx, case):
    """the column options of the command line: --show-tid/--no-show-tid and --color/--no-color"""
    version = case['version']
    blob = build_stream(case['spec'])[0] if version == 2 else files.build_v3(case['spec'])
    for cmd in (('kevents', 'traces', 'callstacks') if version == 2 else ('kevents', 'logs')):
        outs = {}
        for show in (None, False, True):
            o = {'show_tid': show, 'color': False}
            outs[show] = CLI.expect(cmd, o, blob, guard(CLI.reference_items, cmd, o, blob), f'column options {o}')
        if outs[None] != outs[False]:
            raise Violation(f'cli:{cmd}:default-columns', 'omitting --show-tid differs from --no-show-tid')
        if cmd == 'traces':
            plain = outs[False]
            for col in (None, True):
                out, exc = guard(CLI.invoke, cmd, {'show_tid': False, 'color': col}, blob)
                if exc is not None or SGR.sub('', out) != plain:
                    raise Violation('cli:traces:colour-changes-text', f'`traces {"--color" if col else ""}` with the escape sequences stripped differs from `traces --no-color` ({exc})')
        ctx.note([blob, cmd], nontrivial=outs[True] != outs[False], classes=['cli', cmd])


prop_logs = zoned(prop_logs)
prop_clock = zoned(prop_clock)
PROPS = {'v2': prop_v2, 'logs': prop_logs, 'clock': prop_clock, 'cli': prop_cli}


def configs():
    return st.lists(st.lists(st.integers(0, 1), min_size=6, max_size=6), min_size=12, max_size=12)


def run(ctx):
    nm = st.text(st.characters(min_codepoint=0x41, max_codepoint=0x7a), min_size=1, max_size=10).map(lambda s: s.encode())
    map_ops = st.one_of(
        st.tuples(st.just('newthread'), st.just(''), S.u64, st.integers(0, 3), st.integers(0, 15)),
        st.tuples(st.just('exec'), st.just(''), S.u64, st.integers(0, 3), st.integers(0, 15)),
        st.tuples(st.just('tracesingle'), st.just('TRACE_DATA_THREAD_TERMINATE_PID'), st.integers(1, 50000), st.integers(0, 3), st.integers(0, 15)),
        # a terminate record naming the emitting thread itself (it is NOT a map-updating record: the attribution stays)
        st.tuples(st.just('tracesingle'), st.just('TRACE_DATA_THREAD_TERMINATE'), st.sampled_from([0, 4, 7, 11, 14, 18, 21]), st.integers(0, 3), st.integers(0, 15)),
        st.tuples(st.just('sample'), st.just(''), S.u64, st.integers(0, 3), st.sampled_from([9, 11, 13, 15, 15, 7, 6])),
        st.tuples(st.just('sample'), st.just(''), S.u64, st.integers(1, 3), st.sampled_from([9, 13, 15]))).map(list)
    op = st.one_of(SC.op_strategy(), SC.op_strategy(), map_ops)
    programs = st.lists(st.lists(op, min_size=2, max_size=6), min_size=1, max_size=3)
    spec = st.fixed_dictionaries({'programs': programs, 'schedule': st.lists(st.integers(0, 2), max_size=50),
                                  'map_mask': st.sampled_from([7, 7, 3, 5, 6, 1, 0]), 'retarget': st.integers(0, 255), 'drop_names': st.sampled_from([0, 0, 0x55, 0xff, 2]),
                                  'extra_map': st.lists(st.tuples(st.integers(0, 3), st.sampled_from([100, 200, 777, 0]), nm).map(list), max_size=3)})
    v2 = st.fixed_dictionaries({'spec': spec, 'configs': configs(), 'all64': st.just(not ctx.quick)})
    ctx.run_given('v2', v2, prop_v2, ctx.n(120, 200))
    asc = st.text(st.characters(min_codepoint=0x21, max_codepoint=0x7e), min_size=1, max_size=10)
    lg = st.fixed_dictionaries({'spec': files.v3_spec(max_events=4, max_n=4, tids=[0x10, 0x11, 0x12], log_copies=2, force_logs=True),
                                'configs': configs(), 'all64': st.just(not ctx.quick), 'zone': st.sampled_from(HOST_ZONES)})
    ctx.run_given('logs', lg, prop_logs, ctx.n(80, 150))
    clock = st.fixed_dictionaries({'mat': st.sampled_from([0, 500, 1001, 2000, 10 ** 6, 2 ** 40]), 'numer': st.sampled_from([1, 3, 125, 1000, 10 ** 6, 12345678]),
                                   'denom': st.sampled_from([1, 3, 24, 1000]), 'usecs': st.integers(0, 4 * 10 ** 15),
                                   'tz_minutes': st.sampled_from([0, 0, 60, -480, 330, 765, -720])})
    ck = st.fixed_dictionaries({'spec': spec, 'configs': st.lists(st.lists(st.integers(0, 1), min_size=6, max_size=6), min_size=4, max_size=4),
                                'clock': clock, 'zone': st.sampled_from(HOST_ZONES), 'missing': st.sampled_from(['mach_absolute_time', 'numer', 'denom', 'usecs_since_epoch', 'timezone'])})
    ctx.run_given('clock', ck, prop_clock, ctx.n(60, 400))
    if ctx.failures:
        return          # the command line reads real files without a read budget: not on a tree that already fails
    ctx.run_given('cli', st.fixed_dictionaries({'version': st.just(2), 'spec': spec}), prop_cli, ctx.n(25, 120))
    ctx.run_given('cli', st.fixed_dictionaries({'version': st.just(3), 'spec': lg.map(lambda c: c['spec'])}), prop_cli, ctx.n(15, 80))
