"""C17 — every registered decoder is reachable; X and X_nocancel decode alike."""
from hypothesis import strategies as st

from .. import domains, events as EV, kmodel, scenario as SC, strategies as S
from ..core import Violation, guard, REPO_ROOT
from .c09 import render

ID = 'C17'
RULE = ('tables (exhaustive): every key of the decoder table of a fresh TracesParser and of each of the seven family '
        'tables is checked against an independent reader of the bundled trace.codes (name present, under an id with '
        'qualifier bits clear; also through the tool\'s own default table after a caller edited the mapping it was handed earlier), the families are pairwise disjoint, every X_nocancel has its X. twins (generated): for '
        'every pair, in-domain START/END tuples (error zero / errno / unknown), 0..2 lookups (a third of them paths containing the call\'s own name; a third of the cases on process tables that know the pids the call\'s words name): the two renderings '
        'are identical after removing the single "_nocancel" that follows the call name (every third case after another '
        'parser object, built on a table lacking both names, has seen the same ids and must decode nothing). Non-trivial: twin case with '
        'a non-zero error or >= 1 lookup; each table entry counts once; distinct by (pair, tuples).')
ASSUMPTIONS = ['the bundled table is read by an independent reader (split on whitespace, int(x, 16))']


def prop_table(ctx, case):
    from pykdebugparser.traces_parser import TracesParser
    by_id, by_name = kmodel.code_table(REPO_ROOT)
    EV.new_traces_parser()
    parser = EV.new_traces_parser()       # the tables must still be clean after parsers have been built
    fams = EV.decodable_names()
    registered = set(parser.handlers)
    union = set()
    for fam, ns in fams.items():
        for n in ns:
            union.add(n)
    if registered != union:
        raise Violation('tables-differ', f'parser table and family tables differ: {sorted(registered ^ union)[:5]}')
    names_in_table = {}
    for i, n in by_id.items():
        names_in_table.setdefault(n, []).append(i)
    for fam, ns in fams.items():
        for n in ns:
            ids = names_in_table.get(n)
            if not ids:
                raise Violation(f'unreachable:{n}', f'decoder {n} ({fam}) is registered but its name is not in the bundled code table')
            if all(i & 3 for i in ids):
                raise Violation(f'qualifier-bits:{n}', f'{n} only occurs under ids with qualifier bits set: {[hex(i) for i in ids]}')
            # reachability through the real table object as well
            from pykdebugparser.trace_codes import default_trace_codes
            ctx.note(['entry', fam, n], nontrivial=True, classes=['entry:' + fam])
    fl = [(f, set(ns)) for f, ns in fams.items()]
    for i in range(len(fl)):
        for j in range(i + 1, len(fl)):
            both = fl[i][1] & fl[j][1]
            if both:
                raise Violation('families-overlap', f'{fl[i][0]} and {fl[j][0]} both claim {sorted(both)[:3]}')
    # a caller that tailors the table it was handed (overlaying a dump's embedded codes, dropping names) tailors its own
    # copy: decoders stay reachable through the bundled table for everybody else
    from pykdebugparser.trace_codes import default_trace_codes
    mine = guard(default_trace_codes)
    try:
        for i in [i for i, n in list(mine.items()) if n in registered][::3]:
            mine[i] = 'renamed_by_a_caller'
        mine[0x7fff0004] = 'BSC_read'
    except TypeError:
        pass
    EV._default_codes = None
    real = EV.default_codes()
    for n in sorted(registered):
        ids = [i for i in names_in_table.get(n, []) if not i & 3]
        if ids and not any(real.get(i) == n for i in ids):
            raise Violation(f'unreachable:{n}', f'{n}: the tool\'s own table does not map any of {[hex(i) for i in ids]} to it')
        if n.endswith('_nocancel'):
            base = n[:-len('_nocancel')]
            if base not in registered:
                raise Violation(f'twin-missing:{base}', f'{n} is decoded but its base call {base} is not')
            ctx.note(['twin', n], nontrivial=True, classes=['twin-pair'])


def prop_twin(ctx, case):
    nc, seed, err, nlook = case['name'], case['seed'], case['err'], case['lookups']
    base = nc[:-len('_nocancel')]
    ws = S.expand_words(seed + 4096, 0)
    d = domains.project(base, 1, ws)
    a = [int.from_bytes(d[8 * i:8 * i + 8], 'little') for i in range(4)]
    e = [err] + list(S.expand_words(seed + 4096, 1))[1:]
    lookups = [b'/tw%d/%s' % (i, domains.ascii_text((seed, i, 1, 1), 40)) for i in range(nlook)]
    if (seed >> 2) % 3 == 0:
        # paths that happen to contain the call's own name (libopenssl, readlink.d, ...): only the call name differs
        short = base[4:] if base.startswith('BSC_') else base
        short = short[4:] if short.startswith('sys_') else short
        lookups = [b'/usr/lib/lib%sssl/%s_nocancel.d/%d' % (short.encode(), short.encode(), i) for i in range(nlook)]
    if seed % 3 == 0:
        # another parser object, built on a supplied table that lacks these two names, sees the same ids first
        trimmed = {i: n for i, n in EV.default_codes().items() if n not in (nc, base)}
        other = EV.new_traces_parser(codes=trimmed)
        stream = [EV.E(0x34, c, q, args=a if q == 1 else e) for c in (base, nc) for q in (1, 2)]
        leaked = [str(t) for t in guard(lambda: list(other.feed_generator(EV.realize(stream))))]
        if leaked:
            raise Violation(f'decoded-without-table-entry:{nc}', f'a table without {base}/{nc} still decodes them: {leaked}')
    tables = None
    if (seed >> 4) % 3 == 0:
        # the words of the call happen to name processes and threads the dump has declared (a returned pid, a target pid)
        known = [4242, 77, 1]
        e = [e[0], known[seed % 3]] + e[2:]
        d2 = domains.project(base, 1, [known[(seed >> 1) % 3]] + a[1:])
        a = [int.from_bytes(d2[8 * i:8 * i + 8], 'little') for i in range(4)]
        tables = ({0x33: 77, 0x34: 4242, 4242: 1}, {4242: 'child', 77: 'self', 1: 'launchd'})
    t_nc = guard(render, nc, a, e, lookups, tables=tables)
    t_base = guard(render, base, a, e, lookups, tables=tables)
    if t_nc.count('_nocancel(') != 1 or not t_nc.split('(')[0].endswith('_nocancel'):
        raise Violation(f'suffix:{nc}', f'{nc} renders as {t_nc!r}')
    if t_nc.replace('_nocancel', '', 1) != t_base:
        raise Violation(f'twins-differ:{nc}', f'{base}: {t_base!r}  vs  {nc}: {t_nc!r}')
    ctx.note([nc, a, e[:2], nlook, lookups[:1]], nontrivial=bool(err) or nlook > 0, classes=['twin', 'error' if err else 'success', f'lookups:{nlook}',
                                                                                             *(['path-contains-call-name'] if nlook and (seed >> 2) % 3 == 0 else []), *(['words-name-known-processes'] if tables else [])])


PROPS = {'table': prop_table, 'twin': prop_twin}


def twins():
    byname = EV.by_name()
    reg = set(EV.all_decodable())
    return sorted(n for n in reg if n.endswith('_nocancel') and n in byname and n[:-9] in reg and n[:-9] in byname)


def run(ctx):
    if ctx.shard == 0:
        ctx.run_enum('table', [{}], prop_table, exhaustive_label='decoder tables x bundled code table')
    tw = twins()
    errs = [0, 0, 2, 35, 107, 2 ** 32 + 13]
    base = ctx.seed * 49979687
    cases = [{'name': n, 'seed': base + 31 * i + 7919 * r, 'err': errs[(i + r) % len(errs)], 'lookups': (i + r) % 3}
             for r in range(ctx.n(60, 1500)) for i, n in enumerate(tw)]
    ctx.run_enum('twin', cases, prop_twin, exhaustive_label='every registered X/X_nocancel pair (tuples sampled)')
    if tw:
        strat = st.fixed_dictionaries({'name': st.sampled_from(tw), 'seed': st.integers(0, 2 ** 62),
                                       'err': st.one_of(st.sampled_from(errs), S.u64), 'lookups': st.integers(0, 2)})
        ctx.run_given('twin', strat, prop_twin, ctx.n(1500, 20000))
