"""C19 — code-table text maps every 'hex-id name' line; a supplied table is honoured."""
import os
import tempfile

from hypothesis import strategies as st

from .. import events as EV, kmodel, scenario as SC, strategies as S
from ..core import Violation, guard, VERIF_ROOT
from ..io_util import BudgetReader

ID = 'C19'
RULE = ('text: lines "id SEP name [SEP anything]" joined by \\n or \\r\\n, with/without a final newline; id = up to 32 bits, '
        'with/without 0x/0X, either case, leading zeros; SEP = runs of spaces/tabs; names without whitespace characters '
        '(ASCII and unicode); duplicate ids (last wins) and duplicate names; trailing comments of printable text. Oracle: '
        'from_trace_codes_text / from_trace_codes_file == dict built by a plain loop over the generated lines, also when the same text is '
        'parsed again after the caller edited the first mapping; big_file: a table of 70000 lines (more than 2 MiB) whose ids repeat 50000 lines later. '
        'table: event streams from the scenario builder, written as a v2 file and decoded through PyKdebugParser with a '
        'supplied table: (a) renumbering: the stream re-encoded under an injective renumbering sigma (new ids partly '
        'colliding with bundled ids of OTHER names, partly moved into class 7 and its subclasses 0x0700/0x0701) and decoded under sigma(T) gives the same trace texts and the same callstack listing, and the '
        'event listing shows "name (hex(sigma(id)))"; (b) removal: names removed from T are listed as bare hex and '
        'decode like the stream with those events deleted; (c) the empty table decodes nothing and lists only bare hex; (d) a name listed under a second id is decoded under both; '
        '(e) a listing requested under a table and consumed after other requests on the same object still uses its table. '
        'Non-trivial: text with a duplicate id or a comment; table run with >= 1 renumbered-to-colliding id or >= 1 '
        'removed name present in the stream; distinct by text / (table, stream) digest.')
ASSUMPTIONS = ['every line of a table text has the form "hex-id name [anything]" (no blank lines)',
               'page-fault windows with nested real-fault records are not used in renumbered streams (that decoder '
               'finds its nested records by bundled id range, which the statement does not cover)']

name_chars = st.characters(min_codepoint=0x21, max_codepoint=0x2fff, exclude_categories=('Cs', 'Cc', 'Zs', 'Zl', 'Zp', 'Cn', 'Cf'))
comment_chars = st.characters(min_codepoint=0x20, max_codepoint=0x2fff, exclude_categories=('Cs', 'Cc', 'Zl', 'Zp', 'Cn', 'Cf'))


def line_strategy():
    ident = st.one_of(S.u32, st.sampled_from([0, 4, 0x40c0000, 0xffffffff, 0x7000004]), st.integers(0, 40))
    fmt = st.sampled_from(['{:x}', '0x{:x}', '0X{:X}', '{:08x}', '0x{:08X}', '{:X}', '0x{:010x}'])
    sep = st.text(st.sampled_from(' \t'), min_size=1, max_size=4)
    name = st.one_of(st.text(st.characters(min_codepoint=0x21, max_codepoint=0x7e), min_size=1, max_size=20),
                     st.text(name_chars, min_size=1, max_size=8), st.sampled_from(['BSC_read', 'X', 'dup']))
    comment = st.one_of(st.none(), st.none(), st.text(comment_chars, max_size=30))
    return st.tuples(ident, fmt, sep, name, sep, comment).map(list)


def text_case():
    return st.fixed_dictionaries({'lines': st.lists(line_strategy(), max_size=25), 'eol': st.sampled_from(['\n', '\r\n']),
                                  'final': st.booleans(), 'dup': st.lists(st.integers(0, 24), max_size=4)})


def build_text(case):
    lines = [list(l) for l in case['lines']]
    for d in case['dup']:            # force duplicate ids: copy the id of line d onto the following line
        if d + 1 < len(lines):
            lines[d + 1][0] = lines[d][0]
    rows, expected = [], {}
    for ident, fmt, sep, name, sep2, comment in lines:
        if any(c.isspace() for c in name):
            name = 'n' + ''.join(c for c in name if not c.isspace())
        row = fmt.format(ident) + sep + name
        if comment is not None:
            row += sep2 + comment.replace('\x85', '')
        rows.append(row)
        expected[ident] = name
    text = case['eol'].join(rows) + (case['eol'] if case['final'] and rows else '')
    return text, expected, lines


def prop_text(ctx, case):
    from pykdebugparser.trace_codes import from_trace_codes_text, from_trace_codes_file
    text, expected, lines = build_text(case)
    got = guard(from_trace_codes_text, text)
    if dict(got) != expected:
        diff = {k: (got.get(k), expected.get(k)) for k in set(got) | set(expected) if got.get(k) != expected.get(k)}
        raise Violation('text-mapping', f'(got, expected) per id: {dict(list(diff.items())[:4])}; text={text!r}')
    # the mapping handed out belongs to the caller: editing it must not change what the same text maps to next time
    try:
        got[0x7fff0000 + len(got)] = 'edited_by_the_caller'
        for k in list(got)[:2]:
            del got[k]
    except TypeError:
        pass        # a read-only mapping cannot be edited at all
    again = guard(from_trace_codes_text, text)
    if dict(again) != expected:
        diff = {k: (again.get(k), expected.get(k)) for k in set(again) | set(expected) if again.get(k) != expected.get(k)}
        raise Violation('text-mapping-not-repeatable', f'the same text parsed again after the first mapping was edited by its caller: (got, expected) per id '
                                                       f'{dict(list(diff.items())[:4])}; text={text!r}')
    if ctx.evaluations % 10 == 0:
        d = tempfile.mkdtemp(prefix='c19-', dir=os.environ.get('TMPDIR', '/tmp'))
        try:
            p = os.path.join(d, 'trace.codes')
            with open(p, 'w', newline='') as f:
                f.write(text)
            got2 = guard(from_trace_codes_file, p)
            # universal-newline reading may fold \r\n: ids and names must still be the same
            if dict(got2) != expected:
                raise Violation('file-mapping', f'from_trace_codes_file differs: {dict(got2)!r} expected {expected!r}')
        finally:
            import shutil
            shutil.rmtree(d, ignore_errors=True)
    ids = [l[0] for l in lines]
    ctx.note(text, nontrivial=len(set(ids)) < len(ids) or any(l[5] for l in lines),
             classes=['dup-id' if len(set(ids)) < len(ids) else 'unique-ids', 'comments' if any(l[5] is not None for l in lines) else 'plain',
                      'crlf' if case['eol'] == '\r\n' else 'lf'])


def prop_big_file(ctx, case):
    """a table file of megabytes in which ids come back hundreds of thousands of bytes later: the last occurrence wins"""
    from pykdebugparser.trace_codes import from_trace_codes_file, from_trace_codes_text
    n, m, seed = case['lines'], case['ids'], case['seed']
    rows, expected = [], {}
    for k in range(n):
        ident = ((k % m) * 4 + (seed % 7) * 0x1000000) & 0xffffffff
        name = f'name_{k}_{"x" * (8 + (k + seed) % 24)}'
        rows.append(f'{ident:#x}\t{name}')
        expected[ident] = name
    text = '\n'.join(rows) + '\n'
    d = tempfile.mkdtemp(prefix='c19-', dir=os.environ.get('TMPDIR', '/tmp'))
    try:
        path = os.path.join(d, 'trace.codes')
        with open(path, 'w', newline='') as f:
            f.write(text)
        got = guard(from_trace_codes_file, path)
    finally:
        import shutil
        shutil.rmtree(d, ignore_errors=True)
    got2 = guard(from_trace_codes_text, text)
    for label, g in (('from_trace_codes_file', got), ('from_trace_codes_text', got2)):
        if dict(g) != expected:
            diff = [(hex(k), g.get(k), expected.get(k)) for k in list(expected)[:m] if g.get(k) != expected.get(k)][:3]
            raise Violation('big-table-mapping', f'{label} on a table of {n} lines ({len(text)} bytes, ids repeat every {m} lines): (id, got, expected) {diff}, '
                                                 f'{len(g)} ids instead of {len(expected)}')
    ctx.note(['big', n, m, seed], nontrivial=True, classes=[f'table-bytes:{len(text) >> 20}MiB+'])


# ----------------------------------------------------------------------------- supplied tables

def make_file(evs, names_to_id):
    recs = [kmodel.ev_record((1000 + 7 * i, tid, (names_to_id[code] if isinstance(code, str) else code) & ~3 | q, data))
            for i, (tid, code, q, data) in enumerate(evs)]
    return kmodel.v2_file([(0x101, 10, b'p')], 0, recs)


def decode(blob, table):
    from pykdebugparser.pykdebugparser import PyKdebugParser
    p = PyKdebugParser()
    p.color = False
    p.show_timestamp = p.show_process = p.show_tid = False
    traces = list(p.formatted_traces(BudgetReader(blob), trace_codes=table))
    p2 = PyKdebugParser()
    p2.show_timestamp = p2.show_process = p2.show_tid = p2.show_func_qual = p2.show_args = False
    kev = [l.strip() for l in p2.formatted_kevents(BudgetReader(blob), trace_codes=table)]
    return traces + ['callstack: ' + str(c) for c in callstack_lines(blob, table)], kev


def callstack_lines(blob, table):
    """the callstack listing under the same supplied table (sampler and image records are decoded by name, too)"""
    import inspect
    from pykdebugparser.pykdebugparser import PyKdebugParser
    p = PyKdebugParser()
    p.show_timestamp = p.show_process = p.show_tid = False
    if 'trace_codes' not in inspect.signature(p.formatted_callstacks).parameters:
        return []
    return list(p.formatted_callstacks(BudgetReader(blob), trace_codes=table))


def prop_table(ctx, case):
    ops = [op for op in case['ops'] if not (op[0] == 'fault' and op[3] > 0)]
    evs = SC.expand_program(0, ops)
    if not evs:
        return
    byname, byid = EV.by_name(), EV.by_id()
    used = sorted({e[1] for e in evs if isinstance(e[1], str)})
    T = {byname[n]: n for n in used}
    base_traces, base_kev = guard(decode, make_file(evs, byname), dict(T))
    # (a) renumbering
    pool_other = sorted(i for i, n in byid.items() if n not in used and not i & 3)
    sigma, taken = {}, set()
    collide = into7 = 0
    for k, n in enumerate(used):
        w = S.expand_words(case['seed'] + 4096, k)
        if w[0] % 3 == 0 and pool_other:
            new = pool_other[w[1] % len(pool_other)]
            collide += 1
        elif w[0] % 3 == 1 and w[2] % 2:
            # ids inside the kernel-trace class (7), half of them in the two subclasses of the bundled TRACE_* names
            new = (0x07000000 | ((w[1] & 1) << 16 if w[3] % 2 else w[1] & 0xff0000) | (w[2] & 0xfffc)) & ~3
            into7 += 1
        else:
            new = (w[1] % (1 << 32)) & ~3
        while new in taken or (new in byid and byid[new] in used and byid[new] != n):
            new = (new + 4) % (1 << 32)
        taken.add(new)
        sigma[n] = new
    T2 = {i: n for n, i in sigma.items()}
    tr2, kev2 = guard(decode, make_file(evs, sigma), dict(T2))
    if tr2 != base_traces:
        k = next((i for i in range(min(len(tr2), len(base_traces))) if tr2[i] != base_traces[i]), min(len(tr2), len(base_traces)))
        raise Violation('renumbering-changes-traces', f'{len(base_traces)} traces under the bundled ids, {len(tr2)} under a renumbered table; '
                                                      f'first difference at {k}: {base_traces[k:k + 1]} vs {tr2[k:k + 1]}; sigma={ {n: hex(i) for n, i in sigma.items()} }')
    for e, line in zip(evs, kev2):
        code = e[1]
        exp = f'{code} ({hex(sigma[code])})' if isinstance(code, str) else hex(code & ~3)
        if isinstance(code, int) and (code & ~3) in T2:
            exp = f'{T2[code & ~3]} ({hex(code & ~3)})'
        if line != exp:
            raise Violation('listing-name', f'listing shows {line!r}, expected {exp!r}')
    # (b) removal
    removed = [n for k, n in enumerate(used) if S.expand_words(case['seed'] + 99, k)[0] % 4 == 0]
    T3 = {i: n for i, n in T.items() if n not in removed}
    tr3, kev3 = guard(decode, make_file(evs, byname), dict(T3))
    evs_del = [e for e in evs if e[1] not in removed]
    tr_del, _ = guard(decode, make_file(evs_del, byname), dict(T3)) if evs_del else ([], [])
    if tr3 != tr_del:
        raise Violation('removed-name-decoded', f'with {removed} removed from the table: {tr3[:3]} ; with those events deleted: {tr_del[:3]}')
    for e, line in zip(evs, kev3):
        if isinstance(e[1], str) and e[1] in removed and line != hex(byname[e[1]]):
            raise Violation('removed-name-listed', f'{e[1]} removed from the table but listed as {line!r}')
    # (d) aliases: a name listed under two ids is decoded under both
    alias = {}
    for k, nme in enumerate(used):
        if S.expand_words(case['seed'] + 7, k)[0] % 2 == 0:
            new = (0x7a000000 + 0x40 * k) & ~3
            while new in T or new in alias.values():
                new += 4
            alias[nme] = new
    if alias:
        T4 = dict(T)
        T4.update({i: nme for nme, i in alias.items()})
        # keep START/END of one operation under the same id: switch ids per (tid, code) instead of per record
        per = {}
        recs_alias = []
        for i, (tid, code, q, data) in enumerate(evs):
            if isinstance(code, str) and code in alias:
                # all records of one (thread, name) use one of the two ids for the whole stream (the kernel logs an
                # operation under one id; switching ids inside a START..END window would be a different stream)
                if (tid, code) not in per:
                    per[(tid, code)] = alias[code] if S.expand_words(case['seed'] + 11, len(per))[0] % 2 else byname[code]
                ident = per.get((tid, code), byname[code])
            else:
                ident = byname[code] if isinstance(code, str) else code
            recs_alias.append(kmodel.ev_record((1000 + 7 * i, tid, (ident & ~3) | q, data)))
        blob4 = kmodel.v2_file([(0x101, 10, b'p')], 0, recs_alias)
        tr4, _ = guard(decode, blob4, dict(T4))
        if tr4 != base_traces:
            k = next((i for i in range(min(len(tr4), len(base_traces))) if tr4[i] != base_traces[i]), min(len(tr4), len(base_traces)))
            raise Violation('alias-id-not-decoded', f'with a second id for {sorted(alias)} in the table: {len(tr4)} traces instead of {len(base_traces)}; '
                                                    f'first difference at {k}: {tr4[k:k + 1]} vs {base_traces[k:k + 1]}')
    # (e) a listing requested under one table and consumed only after another request on the same object
    from pykdebugparser.pykdebugparser import PyKdebugParser
    pk = PyKdebugParser()
    pk.show_timestamp = pk.show_process = pk.show_tid = pk.show_func_qual = pk.show_args = False
    blob0 = make_file(evs, byname)
    pending = guard(lambda: pk.formatted_kevents(BudgetReader(blob0), trace_codes=dict(T3)))
    guard(lambda: list(pk.formatted_kevents(BudgetReader(blob0))))
    guard(lambda: sum(1 for _ in pk.formatted_traces(BudgetReader(blob0), trace_codes={})))
    late = [l.strip() for l in guard(lambda: list(pending))]
    if late != kev3:
        k = next((i for i in range(min(len(late), len(kev3))) if late[i] != kev3[i]), 0)
        raise Violation('listing-table-rebound', f'a listing requested under a supplied table and read after later requests shows {late[k:k + 1]} instead of {kev3[k:k + 1]}')
    # (c) empty table
    tr0, kev0 = guard(decode, make_file(evs, byname), {})
    if tr0:
        raise Violation('empty-table-decodes', f'an empty supplied table still produced traces: {tr0[:2]}')
    bad = [l for e, l in zip(evs, kev0) if l != hex(EV.eid(e[1]) & ~3)]
    if bad:
        raise Violation('empty-table-names', f'an empty supplied table still names events: {bad[:2]}')
    ctx.note([used, sorted(sigma.values()), removed], nontrivial=bool(base_traces) and (collide > 0 or bool(removed)),
             classes=['table', 'colliding-ids' if collide else 'fresh-ids', *(['renumbered-into-class-7'] if into7 else []), 'removed' if removed else 'none-removed',
                      'traces' if base_traces else 'no-traces'])


PROPS = {'text': prop_text, 'table': prop_table, 'big_file': prop_big_file}


def run(ctx):
    ctx.run_given('text', text_case(), prop_text, ctx.n(1000, 15000))
    if ctx.shard == 0:
        bigs = [{'lines': n, 'ids': m, 'seed': ctx.seed + k} for k, (n, m) in enumerate([(70000, 50000)] if ctx.quick else [(70000, 50000), (150000, 149000), (40000, 3)])]
        ctx.run_enum('big_file', bigs, prop_big_file, exhaustive_label='a table of 70000 lines (2 MiB+) whose ids repeat 50000 lines later')
    strat = st.fixed_dictionaries({'ops': st.lists(SC.op_strategy(), min_size=1, max_size=6), 'seed': S.u64})
    ctx.run_given('table', strat, prop_table, ctx.n(300, 4000))
