"""C12 — event filters select exactly the matching subsequence."""
from hypothesis import strategies as st

from .. import cli as CLI, files, kmodel, logs, strategies as S
from ..core import Violation, guard
from ..io_util import BudgetReader

ID = 'C12'
RULE = ('version-2 and version-3 dumps whose event ids are concentrated on a pool of ~10 classes / ~20 subclasses and '
        'whose thread ids come from a pool of 4 (so that filters hit and miss), a quarter of the records being kernel bookkeeping codes '
        '(thread terminate / new thread / exec / exit / sched) whose arguments name pool threads and pids, half of the version-2 streams '
        'with a terminate record naming the filtered thread; v3 dumps carry log blocks whose '
        'records may lack the process name, the pid or have thread id 0. Configurations: filter_tid in {None, pool, '
        'absent, 0}, class and subclass filters as lists or tuples (empty, singletons, overlapping, absent values, '
        'duplicates; assigned, or appended in place to the lists of the new object); for logs filter_tid and filter_process in {None, a process name, str(pid), absent}. Oracle: '
        'filtered listing == plain-loop filter (predicate written from the statement) of the unfiltered listing, as '
        'lists; no log in the event listing, no event in the log listing (also for version-2 dumps, whose log listing is '
        'empty); the event listing is also taken after a consumed traces request on the same object. Non-trivial: the filter keeps at least one '
        'and drops at least one element; distinct by (file, config). Sub-check long: streams of 257..1300 records with 255..1024 non-matching records between two matches. Sub-check cli: the same dumps and configurations through the '
        'command line (`kevents --tid -cf -sf`, `logs --tid --process`, numbers spelled in decimal, hex or octal): the '
        'printed lines == the lines of the unfiltered listing at the positions the predicate selects.')
ASSUMPTIONS = ['predicate: tid equal; and, when either list is non-empty, class (id >> 24) in classes or subclass '
               '(id >> 16) in subclasses']

CLASSES = [1, 3, 4, 7, 0x1f, 0x25, 0x31, 0xff, 0, 5]
SUBCODES = [0x0c, 0x01, 0x00, 0x14, 0x40, 0xff]
TIDS = [0x10, 0x11, 0x12, 2 ** 40]


def pooled_record():
    def mk(t):
        ts, cls, sub, code, q, tid, data = t
        debugid = (cls << 24) | (sub << 16) | ((code & 0x3fff) << 2) | q
        return kmodel.record(ts | 1, data, tid, debugid)
    return st.tuples(S.u64, st.sampled_from(CLASSES), st.sampled_from(SUBCODES), st.integers(0, 50), st.integers(0, 3),
                     st.sampled_from(TIDS + [0x99]), st.binary(min_size=32, max_size=32)).map(mk)


SPECIAL_IDS = ['TRACE_DATA_THREAD_TERMINATE', 'TRACE_DATA_THREAD_TERMINATE_PID', 'TRACE_DATA_NEWTHREAD', 'TRACE_DATA_EXEC', 'TRACE_STRING_PROC_EXIT',
               'TRACE_LOST_EVENTS', 'MACH_SCHED', 'MACH_MKRUNNABLE', 'PERF_THD_Data', 'BSC_exit', 'BSC_thread_terminate', 'TRACE_STRING_THREADNAME']


def special_record():
    """records of the kernel's own bookkeeping codes whose argument words name pool threads / pids: a filter is a
    plain predicate on each record, whatever the record says about threads"""
    from .. import events as EV

    def mk(t):
        ts, name, q, tid, a0, a1, a2, a3 = t
        ident = EV.by_name().get(name, 0x0700000c)
        data = b''.join(int(x).to_bytes(8, 'little') for x in (a0, a1, a2, a3))
        return kmodel.record(ts | 1, data, tid, (ident & ~3) | q)
    word = st.one_of(st.sampled_from(TIDS + [0x99, 0, 77]), st.integers(0, 300))
    return st.tuples(S.u64, st.sampled_from(SPECIAL_IDS), st.sampled_from([0, 0, 0, 1, 2, 3]), st.sampled_from(TIDS + [0x99]), word, word, word, word).map(mk)


def config():
    lst = st.one_of(st.just([]), st.lists(st.sampled_from(CLASSES + [0x42]), max_size=4))
    sub = st.one_of(st.just([]), st.lists(st.tuples(st.sampled_from(CLASSES + [0x42]), st.sampled_from(SUBCODES)).map(
        lambda t: (t[0] << 8) | t[1]), max_size=4))
    return st.fixed_dictionaries({'tid': st.one_of(st.none(), st.none(), st.sampled_from(TIDS), st.sampled_from(TIDS), st.sampled_from([0, 0x77, 0x99])),
                                  'classes': lst, 'subclasses': sub, 'as_tuple': st.booleans(), 'in_place': st.sampled_from([False, False, True]),
                                  'process': st.one_of(st.none(), st.integers(0, 9), st.integers(0, 9), st.integers(0, 9)), 'process_kind': st.sampled_from(['name', 'pid', 'absent'])})


def pred_event(e, cfg):
    if cfg['tid'] is not None and e.tid != cfg['tid']:
        return False
    if cfg['classes'] or cfg['subclasses']:
        return (e.eventid >> 24) in cfg['classes'] or (e.eventid >> 16) in cfg['subclasses']
    return True


def new_parser(cfg, process=None):
    from pykdebugparser.pykdebugparser import PyKdebugParser
    p = PyKdebugParser()
    p.filter_tid = cfg['tid']
    if cfg.get('in_place') and isinstance(p.filter_class, list) and isinstance(p.filter_subclass, list):
        # the filter lists of a new object are the caller's to fill in place
        p.filter_class.extend(cfg['classes'])
        for x in cfg['subclasses']:
            p.filter_subclass.append(x)
    else:
        p.filter_class = tuple(cfg['classes']) if cfg['as_tuple'] else list(cfg['classes'])
        p.filter_subclass = tuple(cfg['subclasses']) if cfg['as_tuple'] else list(cfg['subclasses'])
    p.filter_process = process
    return p


def with_terminate(case):
    """version-2 case with bookkeeping records that NAME the filtered thread: a thread-terminate record (logged by that
    thread or by another one) somewhere in the stream — later records of the thread are still records of the thread — and a
    new-thread record, logged by the creating thread, that declares the filtered thread's process (the listing of the filtered
    thread still shows the very lines the unfiltered listing shows for it); the filtered thread logs at least two records"""
    cfg, spec = case['config'], case['spec']
    k = case.get('terminate_at')
    if case['version'] != 2 or cfg['tid'] is None:
        return spec
    from .. import events as EV
    recs = list(spec['recs'])
    seedk = (k or 0) + len(recs)
    if sum(1 for r in recs if int.from_bytes(r[40:48], 'little') == cfg['tid']) < 2:
        recs += [kmodel.record(900001 + 2 * i, bytes([i + 1]) * 32, cfg['tid'], (CLASSES[(seedk + i) % len(CLASSES)] << 24) | 0x10000 | (4 * i)) for i in range(2)]
    if k is not None:
        pos = k % (len(recs) + 1)
        by = TIDS[k % len(TIDS)] if k % 3 else cfg['tid']
        data = b''.join(int(x).to_bytes(8, 'little') for x in (cfg['tid'], 0, 0, 0))
        recs.insert(pos, kmodel.record(2 * k + 1, data, by, EV.by_name()['TRACE_DATA_THREAD_TERMINATE']))
    if seedk % 3:
        decl = b''.join(int(x).to_bytes(8, 'little') for x in (cfg['tid'], 4000 + seedk, 0, 0))
        creator = TIDS[(seedk + 1) % len(TIDS)] if TIDS[(seedk + 1) % len(TIDS)] != cfg['tid'] else 0x99
        recs.insert(0, kmodel.record(2 * seedk + 3, decl, creator, EV.by_name()['TRACE_DATA_NEWTHREAD']))
    return dict(spec, recs=recs)


def prop_filter(ctx, case):
    from pykdebugparser.pykdebugparser import PyKdebugParser
    from pykdebugparser.kevent import Kevent
    from pykdebugparser.os_log_event import OsLogEvent
    cfg = case['config']
    if case['version'] == 2:
        blob = files.build_v2(with_terminate(case))
        logs_present = False
    else:
        blob = files.build_v3(case['spec'])
        logs_present = True
    base = guard(lambda: list(PyKdebugParser().kevents(BudgetReader(blob))))
    p_ev = new_parser(cfg)
    if case.get('traces_first'):
        # an earlier traces request on the same object (it reads helper classes internally) must not change the listing
        try:
            sum(1 for _ in p_ev.traces(BudgetReader(blob)))
        except Exception:  # noqa: the records of these dumps carry arbitrary argument bytes, outside the decoders' domains
            pass
    got = guard(lambda: list(p_ev.kevents(BudgetReader(blob))))
    if any(not isinstance(e, Kevent) for e in base + got):
        raise Violation('log-in-event-listing', 'the event listing contains a non-event item')
    exp = [e for e in base if pred_event(e, cfg)]
    # configuring one object configures that object only: a new, unconfigured parser still lists everything
    other = guard(lambda: list(PyKdebugParser().kevents(BudgetReader(blob))))
    if other != base:
        raise Violation('filter-shared-between-objects', f'after another object was configured with {cfg}, a new unconfigured parser lists {len(other)} of {len(base)} events')
    if got != exp:
        raise Violation('event-filter', f'config {cfg}: {len(got)} events, expected {len(exp)} of {len(base)}; '
                                        f'first difference at {next((i for i in range(min(len(got), len(exp))) if got[i] != exp[i]), min(len(got), len(exp)))}')
    kept, dropped = len(exp), len(base) - len(exp)
    cls = ['v%d' % case['version'], *(['filled-in-place'] if cfg.get('in_place') else []), *(['after-traces-request'] if case.get('traces_first') else []), 'tid-filter' if cfg['tid'] is not None else 'no-tid-filter',
           'class-filter' if cfg['classes'] else 'no-class-filter', 'subclass-filter' if cfg['subclasses'] else 'no-subclass-filter']
    nt = kept > 0 and dropped > 0
    if not logs_present:
        lv2 = guard(lambda: list(new_parser(cfg).os_log_events(BudgetReader(blob))))
        if lv2:
            raise Violation('event-in-log-listing', f'the log listing of a version-2 dump (which has no logs) holds {len(lv2)} items: {type(lv2[0]).__name__}')
    if logs_present:
        lbase = guard(lambda: list(PyKdebugParser().os_log_events(BudgetReader(blob))))
        if any(not isinstance(e, OsLogEvent) for e in lbase):
            raise Violation('event-in-log-listing', 'the log listing contains a non-log item')
        # choose the process filter from what the dump holds
        proc = None
        if cfg['process'] is not None and lbase:
            r = lbase[cfg['process'] % len(lbase)]
            proc = {'name': r.process or 'nobody', 'pid': str(r.process_identifier), 'absent': 'no-such-process'}[cfg['process_kind']]
        p = new_parser(cfg, proc)
        lgot = guard(lambda: list(p.os_log_events(BudgetReader(blob))))
        lexp = [e for e in lbase if (cfg['tid'] is None or e.thread_identifier == cfg['tid']) and
                (proc is None or proc == e.process or proc == str(e.process_identifier))]
        if lgot != lexp:
            raise Violation('log-filter', f'tid={cfg["tid"]} process={proc!r}: {len(lgot)} logs, expected {len(lexp)} of {len(lbase)}; '
                                          f'kept messages {[e.composed_message for e in lgot][:4]} expected {[e.composed_message for e in lexp][:4]}')
        if lbase:
            cls.append('logs')
            if proc is not None:
                cls.append('process-filter:' + cfg['process_kind'])
            if 0 < len(lexp) < len(lbase):
                nt = True
                cls.append('log-filter-selective')
    ctx.note([blob, cfg], nontrivial=nt, classes=cls)


def prop_cli(ctx, case):
    """the filters as the command line offers them: kevents --tid/-cf/-sf and logs --tid/--process"""
    from pykdebugparser.pykdebugparser import PyKdebugParser
    cfg = case['config']
    blob = files.build_v2(with_terminate(case)) if case['version'] == 2 else files.build_v3(case['spec'])
    base = guard(lambda: list(PyKdebugParser().kevents(BudgetReader(blob))))
    o = {'tid': cfg['tid'], 'cf': cfg['classes'], 'sf': cfg['subclasses'], 'show_tid': case['show_tid'], 'radix': case['radix']}
    lines = guard(CLI.reference_items, 'kevents', o, blob)
    if len(lines) != len(base):
        raise Violation('cli:kevents:lines', f'{len(lines)} formatted lines for {len(base)} events')
    keep = [ln for ln, e in zip(lines, base) if pred_event(e, cfg)]
    CLI.expect('kevents', o, blob, keep, 'the options select exactly the matching events')
    cls = ['cli:kevents', 'v%d' % case['version']]
    nt = 0 < len(keep) < len(base)
    if case['version'] == 3:
        lbase = guard(lambda: list(PyKdebugParser().os_log_events(BudgetReader(blob))))
        proc = None
        if cfg['process'] is not None and lbase:
            r = lbase[cfg['process'] % len(lbase)]
            proc = {'name': r.process or 'nobody', 'pid': str(r.process_identifier), 'absent': 'no-such-process'}[cfg['process_kind']]
        o2 = {'tid': cfg['tid'], 'process': proc, 'show_tid': case['show_tid']}
        llines = guard(CLI.reference_items, 'logs', o2, blob)
        if len(llines) != len(lbase):
            raise Violation('cli:logs:lines', f'{len(llines)} formatted lines for {len(lbase)} log records')
        lkeep = [ln for ln, e in zip(llines, lbase) if (cfg['tid'] is None or e.thread_identifier == cfg['tid']) and
                 (proc is None or proc == e.process or proc == str(e.process_identifier))]
        CLI.expect('logs', o2, blob, lkeep, 'the options select exactly the matching log records')
        if lbase:
            cls.append('cli:logs')
            nt = nt or 0 < len(lkeep) < len(lbase)
    ctx.note([blob, cfg, case['show_tid'], case['radix']], nontrivial=nt, classes=cls)


def prop_long(ctx, case):
    """long streams in which the filter matches rarely: hundreds of non-matching records between two matches"""
    n, seed, cls_match, gap = case['count'], case['seed'], case['cls'], case['gap']
    recs = []
    for k in range(n):
        w = S.expand_words(seed + 4096, k)
        hit = k % gap == gap - 1 or k == n - 1
        cls_k = cls_match if hit else [0x21, 0x22, 0x2b][w[0] % 3]
        debugid = (cls_k << 24) | ((w[1] & 0xff) << 16) | ((w[2] & 0x3fff) << 2) | (w[3] & 3)
        recs.append(kmodel.record(k + 1, bytes(32), TIDS[w[0] % 4] if not case['tid_filter'] or hit else 0x99, debugid))
    cfg = {'tid': TIDS[0] if case['tid_filter'] == 2 else None, 'classes': [] if case['by_subclass'] else [cls_match],
           'subclasses': [(cls_match << 8) | x for x in range(256)] if case['by_subclass'] else [], 'as_tuple': False, 'process': None, 'process_kind': 'name'}
    prop_filter(ctx, {'version': 2, 'config': cfg, 'traces_first': False, 'spec': {'tm': [], 'pad': 0, 'recs': recs}})
    ctx.note(['long', n, gap, seed], nontrivial=True, classes=[f'long-stream:{n // 256 * 256}+'])


PROPS = {'filter': prop_filter, 'cli': prop_cli, 'long': prop_long}


def run(ctx):
    rec = st.one_of(pooled_record(), pooled_record(), pooled_record(), special_record())
    recs = st.one_of(st.lists(rec, max_size=40), st.lists(rec, min_size=4, max_size=30))
    v2 = st.fixed_dictionaries({'version': st.just(2), 'config': config(), 'traces_first': st.booleans(), 'terminate_at': st.one_of(st.none(), st.integers(0, 20)),
                                'spec': st.fixed_dictionaries({'tm': files.threadmap(6), 'pad': st.sampled_from([0, 8]), 'recs': recs})})
    v3 = st.fixed_dictionaries({'version': st.just(3), 'config': config(), 'traces_first': st.booleans(),
                                'spec': files.v3_spec(max_events=40, max_n=6, tids=TIDS, records_strategy=recs, log_copies=4, force_logs=True)})
    ctx.run_given('filter', v2, prop_filter, ctx.n(250, 1000))
    ctx.run_given('filter', v3, prop_filter, ctx.n(350, 1400))
    longs = st.fixed_dictionaries({'count': st.sampled_from([257, 300, 513, 600, 1025, 1300]), 'seed': st.integers(0, 2 ** 32), 'cls': st.sampled_from([1, 4, 7, 0x31]),
                                   'gap': st.sampled_from([256, 257, 300, 512, 513, 1024, 255]), 'tid_filter': st.sampled_from([0, 0, 1, 2]), 'by_subclass': st.booleans()})
    ctx.run_given('long', longs, prop_long, ctx.n(20, 150))
    if ctx.failures:
        return          # the command line reads real files without a read budget: not on a tree that already fails
    # a few fixed command lines in every run: thread 0, pid-like and absent threads, each alone and with class filters
    fixed = []
    for i, tid in enumerate([0, 0, TIDS[0], 0x99, 2 ** 40, 0x77]):
        recs = [kmodel.record(1000 + 7 * k, bytes([k + 1]) * 32, [0, TIDS[0], 0x99, 2 ** 40, TIDS[1]][k % 5], (CLASSES[k % len(CLASSES)] << 24) | 0x10000 | (4 * k)) for k in range(12)]
        fixed.append({'version': 2, 'traces_first': False, 'terminate_at': None if i % 2 else i, 'show_tid': [None, True, False][i % 3], 'radix': i % 3,
                      'spec': {'tm': [[TIDS[0], 5, b'p', b'']], 'pad': 0, 'recs': recs, 'is64': 1, 'tick': 0, 'fill': 0},
                      'config': {'tid': tid, 'classes': [] if i % 2 == 0 else [CLASSES[i]], 'subclasses': [], 'as_tuple': False, 'in_place': False, 'process': None, 'process_kind': 'name'}})
    ctx.run_enum('cli', fixed, prop_cli, exhaustive_label='six fixed command lines (thread 0, present, absent and huge thread ids)')
    extra = {'show_tid': st.sampled_from([None, False, True]), 'radix': st.integers(0, 2)}
    for base, n in ((v2, ctx.n(60, 300)), (v3, ctx.n(80, 400))):
        ctx.run_given('cli', st.tuples(base, st.fixed_dictionaries(extra)).map(lambda t: {**t[0], **t[1]}), prop_cli, n)
