"""C10 — syscall results: errors take precedence and come only from the END record."""
import re

from hypothesis import strategies as st

from .. import darwin, dictionary as DI, domains, events as EV, scenario as SC, strategies as S, textparse as TP
from ..core import Violation, guard
from .c09 import render, renderings, distinct_words

ID = 'C10'
RULE = ('every decoded BSD syscall except the statement\'s exemption list (written out in the check), all of them in '
        'every run, x in-domain START tuples x END tuples with error word in {0} + every Darwin errno 1..106 + '
        '{107, 255, 2^31, 2^32+13, 2^64-1} and a free return word whose renderings are disjoint from every other '
        'word of the window. Oracle: error != 0 => the result part is exactly "errno: NAME(code)" or "errno: code" '
        'with that code, NAME in [A-Z0-9]+, and no rendering of the return word; error == 0 => no errno and every '
        'numeric literal of the result part is a rendering of END word 1 (pipe: words 1 and 2; booleans allowed). '
        'START words also take every integer constant reachable from the decoder\'s own code (vf/dictionary.py). Metamorphic: result part invariant under START changes, call part invariant under END changes; overlap: two '
        'calls of one thread with crossing or nested windows each show the error of their OWN END. '
        'Non-trivial: error != 0 with a non-zero return word, or error == 0 with return word >= 2^31; distinct by '
        '(decoder, END tuple).')
ASSUMPTIONS = ['exemptions: getpid getppid getuid geteuid getgid getegid getpgrp umask sync getdtablesize getlogin '
               'execve vfork bsdthread_create abort_with_payload (cannot fail / do not return)',
               'the name shown for a code is C18\'s subject; here only its shape is required']

EXEMPT = {'BSC_getpid', 'BSC_getppid', 'BSC_getuid', 'BSC_geteuid', 'BSC_getgid', 'BSC_getegid', 'BSC_getpgrp',
          'BSC_umask', 'BSC_sync', 'BSC_sys_getdtablesize', 'BSC_getdtablesize', 'BSC_getlogin', 'BSC_execve',
          'BSC_vfork', 'BSC_bsdthread_create', 'BSC_abort_with_payload'}
ERR_VALUES = [0, 0, 0] + list(range(1, 107)) + [107, 255, 2 ** 31, 2 ** 32 + 13, 2 ** 64 - 1, 2 ** 63, 2 ** 32]
ERRNO_RE = re.compile(r'^, errno: (?:(?P<name>[A-Z][A-Z0-9]*)\((?P<c1>\d+)\)|(?P<c2>\d+))(?P<tail>.*)$', re.S)
NUMTOK = re.compile(r'(?<![A-Za-z0-9_])-?(?:0x[0-9a-fA-F]+|\d+)(?![A-Za-z0-9_])')


def prop_result(ctx, case):
    name, seed, err = case['name'], case['seed'], case['err']
    dw = distinct_words(name, seed)
    if dw is None:
        return
    a, e = dw
    if case.get('force'):
        a = list(a)
        a[case['force'][0]] = case['force'][1]
        if case.get('magic'):
            d = domains.project(name, 1, a)
            if [int.from_bytes(d[8 * i:8 * i + 8], 'little') for i in range(4)] != a:
                return      # the value is outside the domain of this (enum-valued) slot
            if any(not renderings(a[case['force'][0]]).isdisjoint(renderings(x)) for j, x in enumerate(a + e) if j != case['force'][0]):
                return
    e = [err] + e[1:]
    if not renderings(err).isdisjoint(renderings(e[1])) and err:
        return
    # the window holds unrelated records of the same thread (an interrupt, a page fault, undecoded ids), sometimes hundreds
    nn = case.get('nested', 0)
    nested = [SC.junk(0x33, seed + j, j % 7) for j in range(nn)]
    if nn % 2:       # ... among them the undecoded names of the call's own family (BSC_mmap_extended_info for BSC_mmap)
        nested += [SC.ev(0x33, n, 0, seed, 8 + i) for i, n in enumerate(EV.family_lookalikes(name))]
    txt = guard(render, name, a, e, nested=nested, ts_rev=(seed >> 7) % 4 == 0)
    sc = TP.split_call(txt)
    if sc is None:
        raise Violation(f'call-shape:{name}', f'{txt!r}')
    cname, params, rest = sc
    if err:
        m = ERRNO_RE.match(rest)
        if not m:
            raise Violation(f'error-not-reported:{name}', f'{name}: END error word {err} but result part is {rest!r}; text={txt!r}')
        code = int(m.group('c1') or m.group('c2'))
        if code != err:
            raise Violation(f'wrong-error-code:{name}', f'{name}: END error word {err} shown as {code}: {txt!r}')
        tail = m.group('tail')
        shown = set(NUMTOK.findall(tail))
        for j in (1, 2, 3):
            if e[j] != 0 and shown & renderings(e[j]):
                raise Violation(f'success-value-with-error:{name}', f'{name}: error {err} and still shows END word {j} = {e[j]}: {txt!r}')
        if re.search(r'[a-z_]+: ', tail) and name != 'BSC_fsgetpath':
            raise Violation(f'success-value-with-error:{name}', f'{name}: error {err} and the result part carries another labelled value: {rest!r}')
    else:
        if 'errno' in rest:
            raise Violation(f'errno-without-error:{name}', f'{name}: END error word 0 but {rest!r}')
        allowed = renderings(e[1]) | {'True', 'False'}
        if name == 'BSC_pipe':
            allowed |= renderings(e[2])
        for tok in NUMTOK.findall(rest):
            if tok not in allowed:
                others = {j: renderings(x) for j, x in enumerate(a + e)}
                src = [('START' if j < 4 else 'END', j % 4) for j, r in others.items() if tok in r]
                raise Violation(f'foreign-success-value:{name}', f'{name}: result part {rest!r} shows {tok}, not a rendering of the return word {e[1]} (it is {src or "no word of the window"}); text={txt!r}')
    # metamorphic: result part invariant under START changes
    dw2 = distinct_words(name, seed + 555)
    if dw2 is not None:
        txt2 = guard(render, name, dw2[0], e)
        sc2 = TP.split_call(txt2)
        if sc2 is None or sc2[2] != rest:
            raise Violation(f'result-depends-on-start:{name}', f'{name}: {txt!r} vs {txt2!r}')
    nt = (err != 0 and e[1] != 0) or (err == 0 and e[1] >= 2 ** 31)
    ctx.note([name, e[:2], case.get('force')], nontrivial=nt, classes=['error' if err else 'success', *(['magic-start-value'] if case.get('magic') else []), 'nested' if nn else 'bare', *(['long-window'] if nn > 200 else []), 'unknown-code' if err > 106 else 'darwin-code' if err else 'zero'])


def prop_overlap(ctx, case):
    """two calls of one thread whose windows overlap (crossing or nested): each result part comes from its OWN END"""
    x, y, seed, ex, ey, crossing = case['x'], case['y'], case['seed'], case['ex'], case['ey'], case['crossing']
    if x == y:
        return
    tid = 0x35
    ax = [int.from_bytes(domains.project(x, 1, S.expand_words(seed + 4096, 0))[8 * i:8 * i + 8], 'little') for i in range(4)]
    ay = [int.from_bytes(domains.project(y, 1, S.expand_words(seed + 4096, 1))[8 * i:8 * i + 8], 'little') for i in range(4)]
    endx, endy = EV.E(tid, x, 2, args=[ex, 1111, 0, 0]), EV.E(tid, y, 2, args=[ey, 2222, 0, 0])
    evs = [EV.E(tid, x, 1, args=ax), EV.E(tid, y, 1, args=ay)] + ([endx, endy] if crossing else [endy, endx])
    parser = EV.new_traces_parser()
    got = {}
    for t in guard(lambda: list(parser.feed_generator(EV.realize(evs)))):
        if t.ktraces[0].tid == tid:
            got.setdefault(t.ktraces[0].eventid, []).append(guard(str, t))
    for name, err in ((x, ex), (y, ey)):
        texts = got.get(EV.eid(name), [])
        if len(texts) != 1:
            raise Violation(f'overlap-call-count', f'{x} and {y} overlapping ({"crossing" if crossing else "nested"}): {len(texts)} traces for {name}: {got}')
        sc = TP.split_call(texts[0])
        rest = sc[2] if sc else texts[0]
        m = ERRNO_RE.match(rest)
        if err and (not m or int(m.group('c1') or m.group('c2')) != err):
            raise Violation('overlap-foreign-result', f'{name} ended with error {err} but is rendered {texts[0]!r} (windows of {x} and {y} overlap)')
        if not err and 'errno' in rest:
            raise Violation('overlap-foreign-result', f'{name} ended without error but is rendered {texts[0]!r} (windows of {x} and {y} overlap)')
    ctx.note([x, y, ex, ey, crossing], nontrivial=True, classes=['overlap', 'crossing' if crossing else 'nested'])


def prop_single_all(ctx, case):
    """a call logged as ONE record with both qualifier bits (START|END): the record is its own END record"""
    name, seed, err = case['name'], case['seed'], case['err']
    dw = distinct_words(name, seed)
    if dw is None:
        return
    a = list(dw[0])
    a[0] = err
    d = domains.project(name, 3, a)
    if [int.from_bytes(d[8 * i:8 * i + 8], 'little') for i in range(4)] != a:
        return      # word 0 is enum-valued for this decoder
    p = EV.new_traces_parser()
    out = [t for t in guard(lambda: list(p.feed_generator(EV.realize([EV.E(0x33, name, 3, args=a)]))))]
    if len(out) != 1:
        raise Violation(f'call-count:{name}', f'{name}: {len(out)} traces for one START|END record')
    from .c09 import text_of
    txt = guard(text_of, name, out[0])
    sc = TP.split_call(txt)
    rest = sc[2] if sc else txt
    m = ERRNO_RE.match(rest)
    if err and (not m or int(m.group('c1') or m.group('c2')) != err):
        raise Violation(f'error-not-reported:{name}', f'{name} logged as one START|END record with error word {err}: result part {rest!r}; text={txt!r}')
    if not err and 'errno' in rest:
        raise Violation(f'errno-without-error:{name}', f'{name} logged as one START|END record with error word 0: {rest!r}')
    ctx.note([name, 'all', err], nontrivial=bool(err), classes=['single-start-end-record', 'error' if err else 'success'])


def prop_call_invariant(ctx, case):
    """the call part (name and parameters, with up to seven looked-up paths) is the same whether the call failed or not"""
    name, seed, nlook = case['name'], case['seed'], case['lookups']
    dw = distinct_words(name, seed)
    if dw is None:
        return
    a, e = dw
    lookups = [b'/inv%d/%s' % (i, domains.ascii_text((seed, i, 5, 6), 30).replace(b'.', b'_')) for i in range(nlook)]
    parts = []
    for err in (0, case['err']):
        sc = TP.split_call(guard(render, name, a, [err] + e[1:], lookups))
        if sc is None:
            raise Violation(f'call-shape:{name}', f'{name} with {nlook} lookups')
        parts.append((sc[0], sc[1]))
    if parts[0] != parts[1]:
        raise Violation(f'call-part-depends-on-end:{name}', f'{name} with {nlook} lookups: succeeded {parts[0]}, failed with {case["err"]} {parts[1]}')
    ctx.note([name, nlook, case['err']], nontrivial=nlook >= 2, classes=['call-part-invariance', f'lookups:{nlook}'])


PROPS = {'result': prop_result, 'overlap': prop_overlap, 'single_all': prop_single_all, 'call_invariant': prop_call_invariant}


def names():
    byname = EV.by_name()
    return [n for n in EV.decodable_names()['bsd'] if n in byname and n not in EXEMPT]


def run(ctx):
    base = ctx.seed * 32452843
    ns = names()
    cases = []
    for r in range(ctx.n(30, 600)):
        for i, n in enumerate(ns):
            cases.append({'name': n, 'seed': base + 17 * i + 1000003 * r, 'err': ERR_VALUES[(i * 7 + r * 13 + ctx.seed) % len(ERR_VALUES)],
                          'nested': [0, 1, 2, 3, 1, 0, 5][(i + r) % 7] if (i + 5 * r + ctx.seed) % 97 else [300, 260, 1000][(i + r) % 3]})
    ctx.run_enum('result', cases, prop_result, exhaustive_label='every non-exempt BSD decoder name (END tuples sampled)')
    # every value of every enum-valued START argument, with a failing END (a decoder may branch on the command)
    enum_cases = []
    for n in ns:
        for base_name in (n, ):
            for k, vals in domains.START.get(base_name, {}).items():
                for j, v in enumerate(vals):
                    enum_cases.append({'name': n, 'seed': base + 7 * j + k, 'err': [13, 9, 35, 2 ** 31][j % 4], 'nested': j % 2, 'force': [k, v]})
    ctx.run_enum('result', enum_cases, prop_result, exhaustive_label='every value of every enum-valued START argument with a failing END')
    # values the decoder itself spells out (constants reachable from its code: request numbers, special descriptors, masks):
    # a failing call whose START word is one of them still reports its error
    from pykdebugparser.trace_handlers import bsd
    magic = DI.magic_table(bsd.handlers)
    magic_cases = [{'name': n, 'seed': base + 3 * j + k, 'err': [13, 2, 2 ** 31, 0][(j + k) % 4], 'nested': 0, 'force': [k, v], 'magic': True}
                   for n in ns for j, v in enumerate(magic.get(n, [])) for k in range(4)]
    ctx.run_enum('result', magic_cases, prop_result, exhaustive_label='every decoder x every integer constant reachable from its own code x 4 START slots')
    alls = [{'name': n, 'seed': base + 23 * i + r, 'err': [13, 0, 2, 35, 2 ** 31, 9][(i + r + ctx.seed) % 6]} for r in range(ctx.n(2, 12)) for i, n in enumerate(ns)]
    ctx.run_enum('single_all', alls, prop_single_all, exhaustive_label='every non-exempt BSD decoder as one START|END record')
    from .. import pathparams as PP
    inv = [{'name': n, 'seed': base + 29 * i + k, 'lookups': k, 'err': [2, 13, 85, 1][(i + k) % 4]} for i, n in enumerate(x for x in ns if x in PP.PATH_PARAMS or x in PP.SPECIAL)
           for k in ((6, 7, 3) if ctx.quick else range(8))]
    ctx.run_enum('call_invariant', inv, prop_call_invariant, exhaustive_label='every path-taking decoder x 3 / 6 / 7 (thorough 0..7) lookups: failed vs succeeded')
    ov = st.fixed_dictionaries({'x': st.sampled_from(ns), 'y': st.sampled_from(ns), 'seed': st.integers(0, 2 ** 62),
                                'ex': st.sampled_from([0, 9, 13, 35]), 'ey': st.sampled_from([0, 1, 2, 60]), 'crossing': st.booleans()})
    ctx.run_given('overlap', ov, prop_overlap, ctx.n(500, 10000))
    strat = st.fixed_dictionaries({'name': st.sampled_from(ns), 'seed': st.integers(0, 2 ** 62),
                                   'err': st.one_of(st.sampled_from(ERR_VALUES), S.u64), 'nested': st.integers(0, 4)})
    ctx.run_given('result', strat, prop_result, ctx.n(600, 10000))
