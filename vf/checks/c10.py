"""C10 — syscall results: errors take precedence and come only from the END record."""
import re

from hypothesis import strategies as st

from .. import darwin, domains, events as EV, strategies as S, textparse as TP
from ..core import Violation, guard
from .c09 import render, renderings, distinct_words

ID = 'C10'
RULE = ('every decoded BSD syscall except the statement\'s exemption list (written out in the check), all of them in '
        'every run, x in-domain START tuples x END tuples with error word in {0} + every Darwin errno 1..106 + '
        '{107, 255, 2^31, 2^32+13, 2^64-1} and a free return word whose renderings are disjoint from every other '
        'word of the window. Oracle: error != 0 => the result part is exactly "errno: NAME(code)" or "errno: code" '
        'with that code, NAME in [A-Z0-9]+, and no rendering of the return word; error == 0 => no errno and every '
        'numeric literal of the result part is a rendering of END word 1 (pipe: words 1 and 2; booleans allowed). '
        'Metamorphic: result part invariant under START changes, call part invariant under END changes. '
        'Non-trivial: error != 0 with a non-zero return word, or error == 0 with return word >= 2^31; distinct by '
        '(decoder, END tuple).')
ASSUMPTIONS = ['exemptions: getpid getppid getuid geteuid getgid getegid getpgrp umask sync getdtablesize getlogin '
               'execve vfork bsdthread_create abort_with_payload (cannot fail / do not return)',
               'the name shown for a code is C18\'s subject; here only its shape is required']

EXEMPT = {'BSC_getpid', 'BSC_getppid', 'BSC_getuid', 'BSC_geteuid', 'BSC_getgid', 'BSC_getegid', 'BSC_getpgrp',
          'BSC_umask', 'BSC_sync', 'BSC_sys_getdtablesize', 'BSC_getdtablesize', 'BSC_getlogin', 'BSC_execve',
          'BSC_vfork', 'BSC_bsdthread_create', 'BSC_abort_with_payload'}
ERR_VALUES = [0, 0, 0] + list(range(1, 107)) + [107, 255, 2 ** 31, 2 ** 32 + 13, 2 ** 64 - 1, 2 ** 63, 2 ** 32]
ERRNO_RE = re.compile(r'^, errno: (?:(?P<name>[A-Z][A-Z0-9]*)\((?P<c1>\d+)\)|(?P<c2>\d+))(?P<tail>.*)$', re.S)
NUMTOK = re.compile(r'(?<![A-Za-z0-9_])-?(?:0x[0-9a-fA-F]+|\d+)(?![A-Za-z0-9_])')


def prop_result(ctx, case):
    name, seed, err = case['name'], case['seed'], case['err']
    dw = distinct_words(name, seed)
    if dw is None:
        return
    a, e = dw
    e = [err] + e[1:]
    if not renderings(err).isdisjoint(renderings(e[1])) and err:
        return
    txt = guard(render, name, a, e)
    sc = TP.split_call(txt)
    if sc is None:
        raise Violation(f'call-shape:{name}', f'{txt!r}')
    cname, params, rest = sc
    if err:
        m = ERRNO_RE.match(rest)
        if not m:
            raise Violation(f'error-not-reported:{name}', f'{name}: END error word {err} but result part is {rest!r}; text={txt!r}')
        code = int(m.group('c1') or m.group('c2'))
        if code != err:
            raise Violation(f'wrong-error-code:{name}', f'{name}: END error word {err} shown as {code}: {txt!r}')
        tail = m.group('tail')
        shown = set(NUMTOK.findall(tail))
        if shown & renderings(e[1]) and e[1] != 0:
            raise Violation(f'success-value-with-error:{name}', f'{name}: error {err} and still shows return word {e[1]}: {txt!r}')
    else:
        if 'errno' in rest:
            raise Violation(f'errno-without-error:{name}', f'{name}: END error word 0 but {rest!r}')
        allowed = renderings(e[1]) | {'True', 'False'}
        if name == 'BSC_pipe':
            allowed |= renderings(e[2])
        for tok in NUMTOK.findall(rest):
            if tok not in allowed:
                others = {j: renderings(x) for j, x in enumerate(a + e)}
                src = [('START' if j < 4 else 'END', j % 4) for j, r in others.items() if tok in r]
                raise Violation(f'foreign-success-value:{name}', f'{name}: result part {rest!r} shows {tok}, not a rendering of the return word {e[1]} (it is {src or "no word of the window"}); text={txt!r}')
    # metamorphic: result part invariant under START changes
    dw2 = distinct_words(name, seed + 555)
    if dw2 is not None:
        txt2 = guard(render, name, dw2[0], e)
        sc2 = TP.split_call(txt2)
        if sc2 is None or sc2[2] != rest:
            raise Violation(f'result-depends-on-start:{name}', f'{name}: {txt!r} vs {txt2!r}')
    nt = (err != 0 and e[1] != 0) or (err == 0 and e[1] >= 2 ** 31)
    ctx.note([name, e[:2]], nontrivial=nt, classes=['error' if err else 'success', 'unknown-code' if err > 106 else 'darwin-code' if err else 'zero'])


PROPS = {'result': prop_result}


def names():
    byname = EV.by_name()
    return [n for n in EV.decodable_names()['bsd'] if n in byname and n not in EXEMPT]


def run(ctx):
    base = ctx.seed * 32452843
    ns = names()
    cases = []
    for r in range(ctx.n(30, 150)):
        for i, n in enumerate(ns):
            cases.append({'name': n, 'seed': base + 17 * i + 1000003 * r, 'err': ERR_VALUES[(i * 7 + r * 13 + ctx.seed) % len(ERR_VALUES)]})
    ctx.run_enum('result', cases, prop_result, exhaustive_label='every non-exempt BSD decoder name (END tuples sampled)')
    strat = st.fixed_dictionaries({'name': st.sampled_from(ns), 'seed': st.integers(0, 2 ** 62),
                                   'err': st.one_of(st.sampled_from(ERR_VALUES), S.u64)})
    ctx.run_given('result', strat, prop_result, ctx.n(600, 3000))
