"""C04 — START/END pairing delivers exactly each operation's per-thread event window."""
from hypothesis import strategies as st

from .. import domains, events as EV, strategies as S
from ..core import Violation, guard

ID = 'C04'
RULE = ('cases: histories of up to 60 events over 3 thread ids x ~12 codes drawn per case from four kinds (every '
        'decodable ordinary name, the ten kernel trace-string/data names, known-but-undecoded names, ids unknown to '
        'the table) x the four qualifiers; built from single-event ops and macro ops (nested pair, crossing pair, '
        're-opened START, stray END, same code on two threads, START..NONE..END window, windows of 257..316 records). Timestamps are '
        'increasing, decreasing or permuted (the stream order is the record order); a third of the histories reach the pairing object in 2..5 portions '
        '(feed_generator per portion, every third portion record by record through feed); a quarter carry a NONE/ALL record written twice (byte-identical neighbours). Arguments are projected onto '
        'each decoder\'s domain; the pairing object is built with an empty or an already populated thread map. Oracle (declarative, after EVERY step, over the whole history): a trace is emitted '
        'iff (END with an open START of the same thread+code and the code is decodable) or (NONE/ALL of a decodable '
        'code; continuation fragments may emit 0 or 1); an END window satisfies E_min <= ktraces <= E_max as '
        'subsequences, starts with the most recent open START, ends with the END, no duplicates, same thread, same '
        'pairing domain; plus: deleting all stray ENDs leaves the emitted texts unchanged. Non-trivial: the history '
        'has a crossing pair, a re-opened START, a stray END, one code open on two threads, or a qualifier-3 event; '
        'distinct by the (thread, code kind, qualifier) sequence.')
ASSUMPTIONS = ['which names are decodable / in the trace-string domain is read from the tool\'s handler tables (a fact '
               'about the code under test, not part of the oracle)',
               'unknown ids inside subclasses 0x0700/0x0701 are not generated (pairing domain undefined by the statement)']

FRAGMENT_NAMES = {'VFS_LOOKUP', 'TRACE_STRING_GLOBAL', 'TRACE_STRING_THREADNAME', 'TRACE_STRING_THREADNAME_PREV'}
UNDECODED = ['BSC_pread_extended_info', 'PMAP_flush_TLBS', 'MACH_vm_page_release', 'RealFaultAddressPurgeable',
             'VFS_LOOKUP_DONE', 'TRACE_LOST_EVENTS', 'DYLD_uuid_map_32_a', 'PERF_THD_Sample']
UNKNOWN_IDS = [0x99990000, 0x0badf00c, 0x31ca0004, 0xfffffffc, 0x040cfff0]
TIDS = [0x11, 0x22, 2 ** 40 + 5]
COMPOSITES = ['PERF_Event', 'MACH_vmfault', 'DBG_DYLD_TIMING_LAUNCH_EXECUTABLE', 'BSC_open', 'BSC_rename', 'BSC_linkat',
              'DBG_DYLD_TIMING_DLOPEN', 'BSC_execve', 'BSC_posix_spawn', 'BSC_stat64']

_cache = {}


def name_pools():
    if 'pools' not in _cache:
        dec = EV.decodable_names()
        byname, byid = EV.by_name(), EV.by_id()
        ordinary = [n for fam, ns in dec.items() if fam != 'trace' for n in ns if n in byname]
        trace = [n for n in dec['trace'] if n in byname]
        undec = [n for n in UNDECODED if n in byname and n not in EV.all_decodable()]
        unknown = [i for i in UNKNOWN_IDS if i not in byid]
        _cache['pools'] = (ordinary, trace, undec, unknown)
    return _cache['pools']


def kind_of(code):
    ordinary, trace, undec, unknown = name_pools()
    if isinstance(code, int):
        return 'unknown'
    if code in EV.TRACE_DOMAIN:
        return 'trace'
    return 'ordinary' if code in set(ordinary) else 'undecoded'


# ----------------------------------------------------------------------------- oracle

def analyse(hist, decodable):
    """hist: list of (tid, code, q).  Returns per step: expectation dict"""
    out = []
    for j, (tid, code, q) in enumerate(hist):
        dom = 'T' if code in EV.TRACE_DOMAIN else 'O'
        exp = {'emit': 0, 'window': None}
        if q in (0, 3):
            if code in decodable:
                exp['emit'] = (0, 1) if (q == 0 and code in FRAGMENT_NAMES) else 1
                exp['single'] = True
        elif q == 2:
            i = open_start(hist, j, tid, code)
            exp['stray'] = i is None
            if i is not None and code in decodable:
                exp['emit'] = 1
                emax = [k for k in range(i, j + 1) if hist[k][0] == tid and
                        (('T' if hist[k][1] in EV.TRACE_DOMAIN else 'O') == dom)]
                emin = [k for k in emax if not (i < k < j and hist[k][2] == 2 and
                                                open_start(hist, k, tid, hist[k][1]) is None)]
                exp['window'] = (i, emin, emax)
        out.append(exp)
    return out


def open_start(hist, j, tid, code):
    for i in range(j - 1, -1, -1):
        t, c, q = hist[i]
        if t == tid and c == code:
            if q == 2:
                return None
            if q == 1:
                return i
    return None


def is_subseq(a, b):
    it = iter(b)
    return all(x in it for x in a)


def stamps(n, mode):
    """timestamps are payload, not order: the stream order is the order of the records. increasing, decreasing or a
    fixed permutation of distinct values (a dump merged from several cpu buffers is not sorted inside a window)"""
    if mode == 'dec':
        return [1000 + 7 * (n - i) for i in range(n)]
    if mode == 'perm':
        return [1000 + 7 * ((i * 37 + 11) % max(n, 1)) + (0 if n % 37 else i) for i in range(n)]
    return None


def run_history(evs_abs, prepopulated=False, ts_mode='inc', delivery=None):
    """feed events one by one; returns list (per step) of emitted trace or None, and the real event objects"""
    ts = stamps(len(evs_abs), ts_mode) or [1000 + 7 * i for i in range(len(evs_abs))]
    for i in range(1, len(evs_abs)):
        if evs_abs[i] is evs_abs[i - 1] or (len(evs_abs[i]) > 4 and evs_abs[i][4] == 'dup'):
            ts[i] = ts[i - 1]        # the same record twice: every byte equal, the timestamp too
    real = EV.realize([e[:4] for e in evs_abs], ts_list=ts)
    # the thread/process tables may already be populated when the pairing object is built (a thread map read
    # earlier, a second request on one PyKdebugParser): pairing must not depend on that
    tp = {t: 10 + i for i, t in enumerate(TIDS)} if prepopulated else {}
    parser = EV.new_traces_parser(threads_pids=tp, pids_names={10: 'a', 11: 'b', 12: 'c'} if prepopulated else {})
    emitted = EV.deliver(parser, real, delivery)
    return real, emitted


def prop_history(ctx, case):
    evs = [list(e) for e in case['events']]
    for k in sorted(case.get('dups', []), reverse=True):
        # a NONE/ALL record written twice in a row (a buffer hand-over): two records of the stream, each with its own fate
        j = k % len(evs) if evs else 0
        if evs and evs[j][2] in (0, 3):
            evs.insert(j + 1, evs[j][:4] + ['dup'])
    hist = [(e[0], e[1], e[2]) for e in evs]
    decodable = set(EV.all_decodable())
    real, emitted = guard(run_history, evs, bool(case.get('prepopulated')), case.get('ts', 'inc'), case.get('delivery'))
    ident = {id(o): k for k, o in enumerate(real)}
    exps = analyse(hist, decodable)
    texts = []
    for j, (exp, tr) in enumerate(zip(exps, emitted)):
        want = exp['emit']
        got = 0 if tr is None else 1
        if isinstance(tr, (list, tuple)) and not hasattr(tr, 'ktraces'):
            raise Violation('multiple-traces', f'step {j} returned {type(tr).__name__}')
        if (got not in want) if isinstance(want, tuple) else (got != want):
            what = 'missing-trace' if got == 0 else 'unexpected-trace'
            raise Violation(what, f'step {j} {hist[j]}: emitted={got} expected={want}; history={hist[:j + 1]}')
        if tr is None:
            continue
        texts.append(guard(str, tr))
        kt = list(tr.ktraces)
        idx = [ident.get(id(o)) for o in kt]
        if any(k is None for k in idx):
            # not the same objects: fall back to equality (timestamps are unique)
            idx = [real.index(o) if o in real else None for o in kt]
            if any(k is None for k in idx):
                raise Violation('foreign-event', f'step {j}: window holds an event that was never fed')
        if exp.get('single'):
            if idx != [j]:
                raise Violation('single-window', f'step {j} {hist[j]}: window {idx} expected [{j}]')
            continue
        i, emin, emax = exp['window']
        if len(set(idx)) != len(idx):
            raise Violation('window-duplicates', f'step {j}: window {idx}')
        if not idx or idx[0] != i or idx[-1] != j:
            raise Violation('window-ends', f'step {j} {hist[j]}: window {idx} must start at {i} and end at {j}; history={hist[:j + 1]}')
        if idx != sorted(idx) or not is_subseq(emin, idx) or not is_subseq(idx, emax):
            raise Violation('window-content', f'step {j} {hist[j]}: window {idx} not between {emin} and {emax}; history={hist[:j + 1]}')
    # metamorphic: deleting stray ENDs changes nothing
    stray = [j for j, e in enumerate(exps) if e.get('stray')]
    if stray:
        evs2 = [e for j, e in enumerate(evs) if j not in set(stray)]
        # keep original timestamps irrelevant: texts do not show them
        _, emitted2 = guard(run_history, evs2, bool(case.get('prepopulated')), case.get('ts', 'inc'), case.get('delivery'))
        texts2 = [guard(str, t) for t in emitted2 if t is not None]
        if texts2 != texts:
            raise Violation('stray-end-changes-output', f'with stray ENDs {texts} without {texts2}')
    # classification
    cls = set()
    opened = {}
    for j, (tid, code, q) in enumerate(hist):
        if q == 3:
            cls.add('qualifier-3')
        if q == 1:
            if open_start(hist, j, tid, code) is not None:
                cls.add('re-opened-start')
            if any(t != tid and open_start(hist, j, t, code) is not None for t in TIDS):
                cls.add('same-code-two-threads')
        if q == 2:
            i = open_start(hist, j, tid, code)
            if i is None:
                cls.add('stray-end')
            else:
                # crossing: some START of another code of this thread inside (i,j) still open at j
                for k in range(i + 1, j):
                    t2, c2, q2 = hist[k]
                    if t2 == tid and q2 == 1 and c2 != code and open_start(hist, j, tid, c2) == k:
                        cls.add('crossing-pair')
                    if t2 == tid and q2 == 1 and c2 != code and open_start(hist, j, tid, c2) is None:
                        cls.add('nested-pair')
    kinds = {kind_of(c) for _, c, _ in hist}
    cls |= {'kind:' + k for k in kinds}
    cls.add('timestamps:' + case.get('ts', 'inc'))
    if any(len(e) > 4 for e in evs):
        cls.add('record-written-twice')
    cls.add('delivered-in-portions' if case.get('delivery') else 'delivered-record-by-record')
    if any(e.get('window') and len(e['window'][2]) > 256 for e in exps):
        cls.add('window-over-256-records')
    nt = bool(cls & {'qualifier-3', 're-opened-start', 'same-code-two-threads', 'stray-end', 'crossing-pair'})
    ctx.note([[TIDS.index(t) if t in TIDS else t, kind_of(c), q] for t, c, q in hist], nontrivial=nt, classes=cls)


PROPS = {'history': prop_history}


# ----------------------------------------------------------------------------- generator

def history_strategy(max_ops=25, kinds=(0, 0, 0, 0, 1, 2, 3, 4, 5, 6, 7), max_events=60, mostly_decodable=False):
    ordinary, trace, undec, unknown = name_pools()

    def build(t):
        codes, ops = t
        out = []

        def ev(ti, ci, q, words, code=None):
            code = codes[ci % len(codes)] if code is None else code
            tid = TIDS[ti % len(TIDS)]
            name = code if isinstance(code, str) else None
            if code == 'TRACE_DATA_THREAD_TERMINATE':       # the record names a (possibly different, possibly busy) thread
                words = (words[0] if words[0] in TIDS else TIDS[words[0] % len(TIDS)],) + tuple(words[1:])
            data = domains.project(name, q, words) if name else b''.join(w.to_bytes(8, 'little') for w in words)
            out.append([tid, code, q, data])
        for kind, ti, a, b, q, seed in ops:
            w1, w2, w3, w4 = (S.expand_words(seed, k) for k in range(4))
            if kind == 0:
                ev(ti, a, q, w1)
            elif kind == 1:      # nested pair
                ev(ti, a, 1, w1); ev(ti, b, 1, w2); ev(ti, b, 2, w3); ev(ti, a, 2, w4)
            elif kind == 2:      # crossing pair
                ev(ti, a, 1, w1); ev(ti, b, 1, w2); ev(ti, a, 2, w3); ev(ti, b, 2, w4)
            elif kind == 3:      # re-opened
                ev(ti, a, 1, w1); ev(ti, a, 1, w2); ev(ti, a, 2, w3); ev(ti, a, 2, w4)
            elif kind == 4:      # stray END
                ev(ti, a, 2, w1)
            elif kind == 5:      # same code on two threads
                ev(ti, a, 1, w1); ev(ti + 1, a, 1, w2); ev(ti, a, 2, w3); ev(ti + 1, a, 2, w4)
            elif kind == 7:      # another thread logs a terminate record naming a thread that is inside a call
                ev(ti, a, 1, w1); ev(ti + 1, 0, q if q in (0, 3) else 0, (TIDS[ti % len(TIDS)],) + tuple(w2[1:]), code='TRACE_DATA_THREAD_TERMINATE'); ev(ti, a, 2, w3)
            elif kind == 6:      # window with a NONE inside
                ev(ti, a, 1, w1); ev(ti, b, q if q in (0, 3) else 0, w2); ev(ti, a, 2, w3)
            elif kind == 8:      # a long window: hundreds of records of the thread between START and END
                ev(ti, a, 1, w1)
                for k in range(257 + seed % 60):
                    ev(ti, b if k % 3 else a + 1, 0 if k % 5 else 3, S.expand_words(seed, 10 + k))
                ev(ti, a, 2, w3)
        s0 = ops[0][5] if ops else 0
        return {'events': out[:max_events], 'prepopulated': bool(s0 & 1), 'ts': ['inc', 'inc', 'dec', 'perm'][(s0 >> 1) % 4],
                'delivery': None if (s0 >> 3) % 3 else [(s0 >> (5 + 3 * i)) % 61 for i in range(1 + (s0 >> 4) % 4)],
                'dups': [] if (s0 >> 2) % 4 else [(s0 >> 7) % 53, (s0 >> 13) % 59]}

    # decoders that read the records nested in their window get the same weight as a whole pool
    composite = [n for n in COMPOSITES if n in set(ordinary)]
    code = st.one_of(st.sampled_from(ordinary), st.sampled_from(ordinary), st.sampled_from(trace), st.sampled_from(trace),
                     st.sampled_from(undec), st.sampled_from(unknown), st.sampled_from(composite))
    if mostly_decodable:
        code = st.one_of(*[st.sampled_from(ordinary)] * 6, st.sampled_from(undec), st.sampled_from(unknown))
    op = st.tuples(st.sampled_from(list(kinds)), st.integers(0, 2), st.integers(0, 11),
                   st.integers(0, 11), st.integers(0, 3), S.u64)
    return st.tuples(st.lists(code, min_size=2, max_size=12), st.lists(op, min_size=1, max_size=max_ops)).map(build)


def run(ctx):
    ctx.run_given('history', history_strategy(), prop_history, ctx.n(1500, 20000))
    ctx.run_given('history', history_strategy(max_ops=4, kinds=(8, 8, 0, 6, 4), max_events=700, mostly_decodable=True), prop_history, ctx.n(25, 300))
