"""C18 — output is a function of the dump, not of the host operating system."""
import contextlib
import enum
import sys

from hypothesis import strategies as st

from .. import darwin as D, domains, events as EV, strategies as S, textparse as TP
from ..core import Violation, guard
from .c09 import render
from .c10 import EXEMPT

ID = 'C18'
RULE = ('host models = (errno table, signal enum, address-family enum, socket-kind enum, SOL_SOCKET): the real host, '
        'Darwin, an empty host, a BSD-numbered host (Darwin up to 81, its own names beyond), close relatives of Darwin (a handful of entries renamed / moved / missing) and generated permutations / sparse subsets of the names; installed by swapping '
        'errno.errorcode in place (the E* constants, their second names such as EWOULDBLOCK, and os.strerror follow the model) and rebinding signal.Signals, socket.AddressFamily, socket.SocketKind and '
        'socket.SOL_SOCKET in their home modules and in every module global of pykdebugparser.* that is identical to '
        'them; plus one RELOAD of the decoder modules on an "alien platform" (every integer constant of errno / socket / '
        'signal renumbered or removed), on the BSD-numbered host, on the Darwin model and on a close relative, so that tables built from the host at import time are seen too. Cases: every BSD decoder x EVERY error code 1..140 x 2 (quick) / 4 (thorough) START shapes under the real host and the Darwin model (errno table and E* constants swapped); every BSD decoder x sampled codes under all five models, sigaction 1..31, '
        'socket/socketpair/socket_delegate x Darwin families x kinds 1..5 and x 16 types Darwin does not define (Darwin types or-ed with Linux / BSD creation flags: same outcome on every host, never a SOCK_* name), get/setsockopt with levels 0xffff/1/6/0. '
        'data_model: END words above 2^32 render the same on a host whose C long has 32 bits (ctypes.c_long / c_ulong rebound). Oracle: (1) the rendered text is identical under every host model; (2) the names are Darwin\'s: errno and '
        'signal tables of xnu, required family names, SOCK_*, SOL_SOCKET + SO_* for level 0xffff; codes Darwin does '
        'not define are shown numerically. Non-trivial: the code\'s name differs between at least two host models; '
        'distinct by (decoder, code).')
ASSUMPTIONS = ['host dependence is modelled by substituting the interpreter\'s errno/signal/socket tables, as the '
               'property states; other channels (locale, os.strerror) would only be seen if they react to those tables',
               'only address families that are beyond doubt are required by name (darwin.AF_REQUIRED); for the others '
               'host-independence alone is demanded']


def make_enum(name, mapping):
    return enum.IntEnum(name, {n: v for v, n in sorted(mapping.items())})


@contextlib.contextmanager
def host(model):
    """model: dict(errno={code: name}, signals={v: name}, af={v: name}, sock={v: name}, sol=int) or None (real host)"""
    if model is None:
        yield
        return
    import errno
    import signal
    import socket
    saved_err = dict(errno.errorcode)
    orig = {'Signals': signal.Signals, 'AddressFamily': socket.AddressFamily, 'SocketKind': socket.SocketKind}
    new = {'Signals': make_enum('Signals', model['signals']), 'AddressFamily': make_enum('AddressFamily', model['af']),
           'SocketKind': make_enum('SocketKind', model['sock'])}
    patched = []
    injected = []
    mods = [m for n, m in list(sys.modules.items()) if m is not None and (n in ('signal', 'socket') or n.startswith('pykdebugparser'))]
    saved_consts = {}
    try:
        errno.errorcode.clear()
        errno.errorcode.update(model['errno'])
        for code, nm in model['errno'].items():       # the E* constants of the errno module follow the table
            saved_consts[nm] = getattr(errno, nm, None)
            setattr(errno, nm, code)
        # ... and so do the second names a platform gives to a code (EWOULDBLOCK is EAGAIN's number, whatever that number is)
        by_name = {nm: code for code, nm in model['errno'].items()}
        for names in ({'EAGAIN', 'EWOULDBLOCK'}, {'EDEADLK', 'EDEADLOCK'}, {'ENOTSUP', 'EOPNOTSUPP'} if 'EOPNOTSUPP' not in by_name or 'ENOTSUP' not in by_name else set()):
            have = [n for n in names if n in by_name]
            for n in names:
                if have and n not in by_name:
                    saved_consts.setdefault(n, getattr(errno, n, None))
                    setattr(errno, n, by_name[have[0]])
        # strerror() speaks the platform's numbering too
        import os as _os
        saved_strerror = _os.strerror
        _os.strerror = lambda code, _m=model['errno']: f'{_m[code]} on this host' if code in _m else f'Unknown error {code}'
        patched.append((_os, 'strerror', saved_strerror))
        # ... and so does the interpreter's own mapping from an error number to a subclass of OSError (OSError(35, '') is a
        # BlockingIOError where EAGAIN is 35): the package's modules see a host OSError built on the model
        host_oserror = make_oserror(model['errno'])
        for m in mods:
            if m.__name__.startswith('pykdebugparser') and 'OSError' not in vars(m):
                setattr(m, 'OSError', host_oserror)
                injected.append(m)
        for m in mods:
            for attr, obj in list(vars(m).items()):
                for key, o in orig.items():
                    if obj is o:
                        patched.append((m, attr, obj))
                        setattr(m, attr, new[key])
                if attr == 'SOL_SOCKET' and isinstance(obj, int) and m.__name__ == 'socket':
                    patched.append((m, attr, obj))
                    setattr(m, attr, model['sol'])
        yield
    finally:
        for m in injected:
            if 'OSError' in vars(m):
                delattr(m, 'OSError')
        for m, attr, obj in reversed(patched):
            setattr(m, attr, obj)
        errno.errorcode.clear()
        errno.errorcode.update(saved_err)
        for nm, val in saved_consts.items():
            if val is None:
                delattr(errno, nm)
            else:
                setattr(errno, nm, val)


OSERROR_SUBCLASSES = {
    'EAGAIN': BlockingIOError, 'EWOULDBLOCK': BlockingIOError, 'EALREADY': BlockingIOError, 'EINPROGRESS': BlockingIOError,
    'ECHILD': ChildProcessError, 'EPIPE': BrokenPipeError, 'ESHUTDOWN': BrokenPipeError, 'ECONNABORTED': ConnectionAbortedError,
    'ECONNREFUSED': ConnectionRefusedError, 'ECONNRESET': ConnectionResetError, 'EEXIST': FileExistsError, 'ENOENT': FileNotFoundError,
    'EINTR': InterruptedError, 'EISDIR': IsADirectoryError, 'ENOTDIR': NotADirectoryError, 'EACCES': PermissionError,
    'EPERM': PermissionError, 'ESRCH': ProcessLookupError, 'ETIMEDOUT': TimeoutError}


def make_oserror(errno_table):
    """OSError as a host with this errno numbering has it: OSError(code, msg) is an instance of the subclass CPython maps
    the code's NAME to"""
    class HostOSError(OSError):
        def __new__(cls, *a, **kw):
            if cls is HostOSError and len(a) >= 2 and isinstance(a[0], int):
                sub = OSERROR_SUBCLASSES.get(errno_table.get(a[0]))
                return sub.__new__(sub, *a, **kw) if sub else Exception.__new__(OSError, *a, **kw)
            return super().__new__(cls, *a, **kw)
    return HostOSError


def darwin_model():
    return {'errno': dict(D.ERRNO), 'signals': dict(D.SIGNALS), 'af': dict(D.AF), 'sock': dict(D.SOCK), 'sol': 0xffff}


def empty_model():
    return {'errno': {}, 'signals': {1: 'SIGHUP'}, 'af': {0: 'AF_UNSPEC'}, 'sock': {1: 'SOCK_STREAM'}, 'sol': 1}


def permuted_model(seed):
    def perm(table, span):
        names = sorted(set(table.values()))
        out = {}
        for i, n in enumerate(names):
            out[(i * 7 + seed) % span + 1] = n
        return out
    return {'errno': perm(D.ERRNO, 133), 'signals': perm(D.SIGNALS, 40), 'af': {**perm(D.AF, 45), 0: 'AF_UNSPEC_X'},
            'sock': perm(D.SOCK, 9), 'sol': [1, 7, 0xffff, 6][seed % 4]}


BSD_TAIL = {45: 'EOPNOTSUPP', 82: 'EIDRM', 83: 'ENOMSG', 84: 'EOVERFLOW', 85: 'ECANCELED', 86: 'EILSEQ', 87: 'ENOATTR', 88: 'EDOOFUS',
            89: 'EBADMSG', 90: 'EMULTIHOP', 91: 'ENOLINK', 92: 'EPROTO', 93: 'ENOTCAPABLE', 94: 'ECAPMODE', 95: 'ENOTRECOVERABLE',
            96: 'EOWNERDEAD', 97: 'EINTEGRITY'}


def bsd_like_model():
    """a host that numbers like Darwin up to 81 (35 is EAGAIN, as on every BSD) and goes its own way beyond"""
    m = darwin_model()
    m['errno'] = {c: n for c, n in D.ERRNO.items() if c <= 81}
    m['errno'].update(BSD_TAIL)
    return m


def near_darwin_model(seed):
    """Darwin's tables with a handful of entries renamed, moved or missing (a close relative of the target platform)"""
    m = darwin_model()
    for key, span in (('errno', 110), ('signals', 31), ('af', 40), ('sock', 5)):
        t = dict(m[key])
        codes = sorted(t)
        for j in range(1 + len(codes) // 8):
            c = codes[(seed * 13 + j * 29) % len(codes)]
            if key == 'af' and c == 0:
                continue
            what = (seed + j) % 3
            if what == 0:
                t[c] = t[c] + '_X'
            elif what == 1:
                t.pop(c)
            else:
                other = codes[(seed * 7 + j * 11 + 3) % len(codes)]
                if other != c and c in t and other in t and not (key == 'af' and other == 0):
                    t[c], t[other] = t[other], t[c]
        m[key] = t
    return m


def models(seed):
    return [('host', None), ('darwin', darwin_model()), ('empty', empty_model()), ('perm%d' % (seed % 97), permuted_model(seed)),
            ('perm%d' % ((seed * 31 + 5) % 89), permuted_model(seed * 31 + 5)), ('bsd-like', bsd_like_model()),
            ('near-darwin%d' % (seed % 53), near_darwin_model(seed))]


def render_under(name, a, e, seed, lookups=()):
    out = {}
    for label, m in models(seed):
        with host(m):
            out[label] = render(name, a, e, lookups)
    return out


def check_same(name, texts, what):
    vals = set(texts.values())
    if len(vals) != 1:
        ref = texts['darwin']
        other = next(k for k, v in texts.items() if v != ref)
        raise Violation(f'host-dependent:{what}:{name}', f'{name}: under host model "darwin": {ref!r}; under "{other}": {texts[other]!r}')
    return next(iter(vals))


def prop_errno(ctx, case):
    name, code, seed = case['name'], case['code'], case['seed']
    d = domains.project(name, 1, S.expand_words(seed + 4096, 0))
    a = [int.from_bytes(d[8 * i:8 * i + 8], 'little') for i in range(4)]
    e = [code, 77, 78, 79]
    # a third of the failing calls carry looked-up paths (a decoder may say more about a failure when it knows the file)
    lookups = [b'/usr/bin/tool', b'/usr/lib/dyld'][:1 + seed % 2] if seed % 3 == 0 else []
    txt = check_same(name, guard(render_under, name, a, e, seed, lookups), 'errno')
    sc = TP.split_call(txt)
    rest = sc[2] if sc else txt
    if code:
        if code in D.ERRNO:
            ok = [f'errno: {n}({code})' for n in D.ERRNO_ALIASES.get(code, {D.ERRNO[code]})]
            if not any(o in rest for o in ok):
                raise Violation(f'not-darwin-name:errno:{code}', f'{name}: error {code} rendered {rest!r}, Darwin calls it {D.ERRNO[code]}')
        elif f'errno: {code}' not in rest or f'({code})' in rest:
            raise Violation(f'name-for-undefined-code:errno', f'{name}: error {code} is not a Darwin errno but is rendered {rest!r}')
    ctx.note([name, code], nontrivial=code != 0, classes=['errno', 'darwin-defined' if code in D.ERRNO else 'undefined' if code else 'zero'])


def prop_signal(ctx, case):
    sig, seed = case['sig'], case['seed']
    txt = check_same('BSC_sigaction', guard(render_under, 'BSC_sigaction', [sig, 0x10, 0x20, 0], [0, 0, 0, 0], seed), 'signal')
    p0 = TP.split_call(txt)[1][0]
    if p0 not in D.SIGNAL_ALIASES.get(sig, {D.SIGNALS[sig]}):
        raise Violation(f'not-darwin-name:signal:{sig}', f'signal {sig} rendered {p0}, Darwin calls it {D.SIGNALS[sig]}')
    ctx.note(['sig', sig], nontrivial=True, classes=['signal'])


def prop_socket(ctx, case):
    name, af, kind, seed = case['name'], case['af'], case['kind'], case['seed']
    txt = check_same(name, guard(render_under, name, [af, kind, 6, 9], [0, 5, 0, 0], seed), 'socket')
    params = TP.split_call(txt)[1]
    if af in D.AF_REQUIRED and params[0] not in D.AF_ALIASES.get(af, {D.AF[af]}):
        raise Violation(f'not-darwin-name:af:{af}', f'{name}: family {af} rendered {params[0]}, Darwin calls it {D.AF[af]}')
    if params[1] != D.SOCK[kind]:
        raise Violation(f'not-darwin-name:sock:{kind}', f'{name}: type {kind} rendered {params[1]}, Darwin calls it {D.SOCK[kind]}')
    ctx.note([name, af, kind], nontrivial=af > 2 or kind > 3, classes=['socket'])


def prop_socket_undefined(ctx, case):
    """a socket type Darwin does not define (among them Darwin types or-ed with another platform's SOCK_NONBLOCK /
    SOCK_CLOEXEC bits): whatever the tool does with it (numeric rendering or rejection), it does the same on every
    host and never gives it one of Darwin's SOCK_* names"""
    name, af, kind, seed = case['name'], case['af'], case['kind'], case['seed']
    outcomes = {}
    for label, m in models(seed):
        with host(m):
            try:
                outcomes[label] = ('text', render(name, [af, kind, 6, 9], [0, 5, 0, 0]))
            except Violation:
                raise
            except Exception as e:  # noqa: rejecting an undefined type is allowed, but then on every host
                outcomes[label] = ('raises', type(e).__name__)
    if len(set(outcomes.values())) != 1:
        ref = outcomes['darwin']
        other = next(k for k, v in outcomes.items() if v != ref)
        raise Violation(f'host-dependent:socket-type:{name}', f'{name} type {kind:#x}: under host model "darwin": {ref}; under "{other}": {outcomes[other]}')
    kind_, val = outcomes['darwin']
    if kind_ == 'text':
        params = TP.split_call(val)[1]
        if params[1].startswith('SOCK_'):
            raise Violation(f'not-darwin-name:sock:{kind:#x}', f'{name}: type {kind:#x} is not a Darwin socket type but is rendered {params[1]}')
    ctx.note([name, af, kind], nontrivial=True, classes=['socket-undefined-type', kind_])


@contextlib.contextmanager
def llp64():
    """a host whose C `long` has 32 bits (Windows): ctypes.c_long / c_ulong are the 32-bit types there"""
    import ctypes
    saved = []
    mods = [ctypes] + [m for n, m in list(sys.modules.items()) if m is not None and n.startswith('pykdebugparser')]
    try:
        for m in mods:
            # by NAME: on this host c_int64 is the same object as c_long, there it is c_longlong
            for attr, new in (('c_long', ctypes.c_int32), ('c_ulong', ctypes.c_uint32)):
                if isinstance(vars(m).get(attr), type):
                    saved.append((m, attr, vars(m)[attr]))
                    setattr(m, attr, new)
        yield
    finally:
        for m, attr, obj in reversed(saved):
            setattr(m, attr, obj)


def prop_data_model(ctx, case):
    """error and result words are 64-bit words of the dump: their rendering does not depend on how wide the host's C long is"""
    name, seed, word = case['name'], case['seed'], case['word']
    d = domains.project(name, 1, S.expand_words(seed + 4096, 0))
    a = [int.from_bytes(d[8 * i:8 * i + 8], 'little') for i in range(4)]
    e = [word if case['slot'] == 0 else 0, word if case['slot'] == 1 else 77, 78, 79]
    here = guard(render, name, a, e)
    with llp64():
        there = guard(render, name, a, e)
    if here != there:
        raise Violation(f'host-dependent:data-model:{name}', f'{name} END={e}: {here!r} on this host, {there!r} on a host whose C long has 32 bits')
    ctx.note([name, case['slot'], word], nontrivial=word >= 1 << 32, classes=['data-model'])


def prop_sockopt(ctx, case):
    name, level, opt, seed = case['name'], case['level'], case['opt'], case['seed']
    txt = check_same(name, guard(render_under, name, [3, level, opt, 0x40], [0, 0, 0, 0], seed), 'sockopt')
    params = TP.split_call(txt)[1]
    if level == 0xffff:
        if params[1] != 'SOL_SOCKET' or params[2] != D.SO[opt]:
            raise Violation('not-darwin-name:sockopt', f'{name}: level 0xffff option {opt:#x} rendered {params[1:3]}, expected SOL_SOCKET {D.SO[opt]}')
    elif params[1] == 'SOL_SOCKET':
        raise Violation('not-darwin-name:sockopt', f'{name}: level {level} rendered as SOL_SOCKET (Darwin\'s SOL_SOCKET is 0xffff)')
    ctx.note([name, level, opt], nontrivial=level in (0xffff, 1), classes=['sockopt', f'level:{level:#x}'])


def prop_errno_sweep(ctx, case):
    """one decoder x every error code 1..140 x every timed/untimed START shape, under the real host and the Darwin model"""
    name, seed = case['name'], case['seed']
    w = list(S.expand_words(seed + 4096, 0))
    variants = []
    shapes = (w, [x | 1 for x in w], [x if i < 2 else 0 for i, x in enumerate(w)], [0, 0, 0, 0])
    for ws in (shapes[1:3] if ctx.quick else shapes):
        d = domains.project(name, 1, ws)
        variants.append([int.from_bytes(d[8 * i:8 * i + 8], 'little') for i in range(4)])
    dm = darwin_model()
    for av in variants:
        texts = {}
        for label, m in (('host', None), ('darwin', dm)):
            with host(m):
                texts[label] = [guard(render, name, av, [code, 77, 78, 79], [b'/usr/bin/tool'] if av is variants[0] else ()) for code in range(1, 141)]
        for code, th, td in zip(range(1, 141), texts['host'], texts['darwin']):
            if th != td:
                raise Violation(f'host-dependent:errno:{name}', f'{name} error {code}: on this host {th!r}, under the Darwin host model {td!r}')
    ctx.note([name, 'sweep'], nontrivial=True, classes=['errno-sweep'])


@contextlib.contextmanager
def alien_platform():
    """the errno / signal / socket modules as another platform would expose them: every integer constant is renumbered
    or missing, errno.errorcode follows; used with a RELOAD of the decoder modules, so that tables built at import time
    from the host are seen as well"""
    import errno
    import signal
    import socket
    saved, removed = [], []
    saved_err = dict(errno.errorcode)
    try:
        for mod in (errno, socket, signal):
            for attr, val in list(vars(mod).items()):
                if not attr[:1].isupper() or not isinstance(val, int) or isinstance(val, bool) or attr in ('SIGALRM', 'ITIMER_REAL'):
                    continue
                if mod is signal and not attr.startswith('SIG'):
                    continue
                h = sum(ord(c) * (i + 3) for i, c in enumerate(attr))
                saved.append((mod, attr, val))
                if h % 3 == 0:
                    delattr(mod, attr)
                else:
                    try:
                        setattr(mod, attr, int(val) + 1000 + h % 7)
                    except Exception:  # noqa
                        saved.pop()
        errno.errorcode.clear()
        errno.errorcode.update({getattr(errno, n): n for n in dir(errno) if n[:1] == 'E' and isinstance(getattr(errno, n), int)})
        yield
    finally:
        for mod, attr, val in saved:
            setattr(mod, attr, val)
        errno.errorcode.clear()
        errno.errorcode.update(saved_err)


def reload_decoders():
    import importlib
    import pykdebugparser.trace_handlers.bsd as bsd
    import pykdebugparser.traces_parser as tp
    importlib.reload(bsd)
    importlib.reload(tp)


def prop_reload(ctx, case):
    """decoder modules loaded afresh on an alien platform render exactly what they render here"""
    cases = []
    for code in list(range(0, 141)):
        cases.append(('BSC_read', [3, 0x1000, 16, 0], [code, 5, 0, 0]))
    for sig in range(1, 32):
        cases.append(('BSC_sigaction', [sig, 0x10, 0x20, 0], [0, 0, 0, 0]))
    for af in sorted(D.AF):
        cases.append(('BSC_socket', [af, 1 + af % 5, 6, 0], [0, 5, 0, 0]))
    for level in list(range(0, 300)) + [0xffff]:
        cases.append(('BSC_setsockopt', [3, level, 0x1001 if level == 0xffff else 7, 0x40], [0, 0, 0, 0]))
        cases.append(('BSC_getsockopt', [3, level, 0x1 if level == 0xffff else 3, 0x40], [0, 0, 0, 0]))
    here = [guard(render, n, a, e) for n, a, e in cases]
    platforms = [('an alien platform', alien_platform), ('a BSD-numbered platform', lambda: host(bsd_like_model())),
                 ('the Darwin model', lambda: host(darwin_model())), ('a close relative of Darwin', lambda: host(near_darwin_model(case.get('seed', 5))))]
    for label, platform in platforms:
        try:
            with platform():
                guard(reload_decoders)
                there = [guard(render, n, a, e) for n, a, e in cases]
        finally:
            reload_decoders()
        for (n, a, e), x, y in zip(cases, here, there):
            if x != y:
                raise Violation(f'host-dependent:import-time:{n}', f'{n} START={a} END={e}: {x!r} here, {y!r} when the decoders are loaded on {label}')
        ctx.note(['reload', label, len(cases)], nontrivial=True, classes=['reload:' + label.split()[-2] + '-' + label.split()[-1]])


PROPS = {'data_model': prop_data_model, 'socket_undefined': prop_socket_undefined, 'reload': prop_reload, 'errno_sweep': prop_errno_sweep, 'errno': prop_errno, 'signal': prop_signal, 'socket': prop_socket, 'sockopt': prop_sockopt}


def run(ctx):
    byname = EV.by_name()
    bsd = [n for n in EV.decodable_names()['bsd'] if n in byname and n not in EXEMPT]
    base = ctx.seed * 86028121
    cases = []
    for code in range(0, 141):
        cases.append({'name': 'BSC_pipe', 'code': code, 'seed': base + code})
        cases.append({'name': 'BSC_read', 'code': code, 'seed': base + code})
    for r in range(ctx.n(4, 30)):
        for i, n in enumerate(bsd):
            cases.append({'name': n, 'code': (i * 37 + r * 11 + ctx.seed) % 141, 'seed': base + i + 1000 * r})
    ctx.run_enum('errno', cases, prop_errno, exhaustive_label='errno 0..140 through pipe and read; every BSD decoder (codes sampled)')
    every = EV.decodable_names()['bsd']
    sweep = [{'name': n, 'seed': base + i} for i, n in enumerate(n for n in every if n in byname)]
    ctx.run_enum('errno_sweep', sweep, prop_errno_sweep, exhaustive_label='every BSD decoder x error codes 1..140 x 2 (quick) / 4 (thorough) START shapes (host vs Darwin model)')
    if ctx.shard == 0:
        ctx.run_enum('reload', [{'seed': ctx.seed}], prop_reload)
    ctx.run_enum('signal', [{'sig': s, 'seed': base + s} for s in range(1, 32)], prop_signal, exhaustive_label='signals 1..31')
    so = [{'name': n, 'af': af, 'kind': k, 'seed': base + af * 7 + k}
          for n in ('BSC_socket', 'BSC_socketpair', 'BSC_socket_delegate') for af in sorted(D.AF) for k in range(1, 6)]
    ctx.run_enum('socket', so, prop_socket, exhaustive_label='Darwin address families x socket kinds')
    words = [2 ** 32 + 2, 2 ** 64 - 2, 2 ** 63, 2 ** 32 + 13, 2 ** 31, 13, 2 ** 40 + 35]
    dm = [{'name': n, 'seed': base + i, 'slot': (i + j) % 2, 'word': w_} for i, n in enumerate(bsd[::max(1, len(bsd) // ctx.n(25, 200))]) for j, w_ in enumerate(words)]
    ctx.run_enum('data_model', dm, prop_data_model, exhaustive_label='BSD decoders (sampled) x END words above 2^32 on a host whose C long has 32 bits')
    odd = [0x801, 0x802, 0x80001, 0x80002, 0x80801, 0x800, 0x80000, 0x20000001, 0x10000002, 0x30000001, 0x4001, 0x8001, 6, 7, 0, 0x100000001]
    su = [{'name': n, 'af': 2 + (i % 2) * 28, 'kind': k, 'seed': base + i} for n in ('BSC_socket', 'BSC_socketpair', 'BSC_socket_delegate') for i, k in enumerate(odd)]
    ctx.run_enum('socket_undefined', su, prop_socket_undefined, exhaustive_label='socket types Darwin does not define (Darwin types | other platforms\' creation flags)')
    opts = sorted(D.SO)
    sk = [{'name': n, 'level': lv, 'opt': opts[(i * 5 + j) % len(opts)] if lv == 0xffff else (i + j) % 300, 'seed': base + i}
          for n in ('BSC_setsockopt', 'BSC_getsockopt') for j, lv in enumerate((0xffff, 1, 6, 0, 0xffff)) for i in range(len(opts))]
    ctx.run_enum('sockopt', sk, prop_sockopt)
    strat = st.fixed_dictionaries({'name': st.sampled_from(bsd), 'code': st.one_of(st.integers(0, 140), st.integers(100, 140)),
                                   'seed': st.integers(0, 2 ** 40)})
    ctx.run_given('errno', strat, prop_errno, ctx.n(400, 2500))
