"""C08 — paths and strings split over several records are reassembled exactly, once."""
from hypothesis import strategies as st

from .. import domains, events as EV, kmodel, pathparams as PP, scenario as SC, strategies as S, textparse as TP
from ..core import Violation, guard

ID = 'C08'
RULE = ('lookup/string: texts (ASCII and multi-byte UTF-8) of EVERY byte length 0..184 (paths), 0..200 (global '
        'strings), 0..63 (thread names) are enumerated in every run with pseudo-random content and encoded by the '
        'kernel-side chunk model; unrelated ordinary-domain records of the same thread and records of other threads '
        'are interleaved between the chunks. syscall: every path-taking decoder (66 names) x 0..7 lookups of '
        'generated lengths, unrelated records anywhere in the window, some lookups exact repeats of the previous one (same vnode id, same text), timestamps increasing, sharing ticks, decreasing or pairwise inverted, three windows per run with 1030 / 4100 / 5000 other threads starting calls inside them. Oracle: exactly one lookup/string trace per '
        'text, none for continuation records, exact text / vnode id / string id, global_strings[id] == text; the '
        'quoted path parameters of the enclosing call equal the looked-up paths in lookup order at the reviewed '
        'positions. Non-trivial: a text of >= 3 records or a window with >= 2 lookups; distinct by (decoder, lengths).')
ASSUMPTIONS = ['A1: two records of one thread are never byte-identical (several records may share a timestamp as long as their payloads differ)',
               'chunks of two texts of the same kind are never interleaved on one thread (one kernel loop emits them); '
               'trace-string-domain records sit only between complete strings',
               'paths in the syscall sub-check contain no quote, comma or control character',
               'path-parameter positions are the hand table of DESIGN.md appendix A']

OTHER_TID = 0x999


def utf8_text(n, seed):
    """text of exactly n utf-8 bytes: mix of 1-, 2- and 3-byte characters, no NUL, no quote/comma"""
    alphabet = ['a', 'Z', '/', '.', '_', '7', ' ', 'é', 'ß', 'ж', '→', '語', '€']
    out, size, x = [], 0, seed | 1
    while size < n:
        x = (x * 6364136223846793005 + 1442695040888963407) % (1 << 64)
        c = alphabet[(x >> 33) % len(alphabet)]
        b = len(c.encode())
        if size + b > n:
            c, b = 'x', 1
        out.append(c)
        size += b
    return ''.join(out)


def ascii_exact(n, seed):
    out, x = [], seed | 1
    for _ in range(n):
        x = (x * 6364136223846793005 + 1442695040888963407) % (1 << 64)
        out.append(chr(domains.ASCII[(x >> 33) % len(domains.ASCII)]))
    return ''.join(out)


def noise(tid, seed, k):
    code = ['INTERRUPT', 'DecrSet', 'BSC_pread_extended_info', 0x99990000, 'MACH_vm_page_release', 'VFS_LOOKUP_DONE', 'VFS_LOOKUP_DONE'][S.expand_words(seed, k)[0] % 7]
    return SC.ev(tid, code, 0, seed, k + 1)


def weave(chunks, seed, tid, density):
    """insert unrelated same-thread records and other-thread records between the chunk events"""
    out = []
    for i, e in enumerate(chunks):
        r = S.expand_words(seed, 200 + i)[0] % 8
        if r < density:
            out.append(noise(tid, seed, 300 + i))
        if r == 7 and density:
            out.append(SC.ev(OTHER_TID, 'VFS_LOOKUP', 0, seed, 400 + i))     # another thread's continuation chunk
        out.append(e)
    return out


def feed(evs, same_tick=0):
    # same_tick = g: consecutive groups of g records carry one timestamp (several records within one timebase tick);
    # same_tick = -1 / -2: timestamps decrease along the stream / neighbours are pairwise inverted (the order of a stream is the
    # order of its records; timestamps of a dump merged from several cpu buffers are not sorted)
    if same_tick < 0:
        n = len(evs)
        real = EV.realize(evs, ts_list=[1000 + 7 * (n - i) if same_tick == -1 else 1000 + 7 * (i ^ 1 if i % 4 < 2 else i) for i in range(n)])
        parser = EV.new_traces_parser()
        return parser, list(parser.feed_generator(real))
    ts = [1000 + 7 * (i // same_tick) for i in range(len(evs))] if same_tick else None
    if ts:
        seen = set()
        for i, e in enumerate(evs):        # A1: two records of one thread are never byte-identical
            if i and ts[i] < ts[i - 1]:
                ts[i] = ts[i - 1]
            while (ts[i], e[0], EV.eid(e[1]) if isinstance(e[1], str) else e[1], e[2], bytes(e[3])) in seen:
                ts[i] += 1
            seen.add((ts[i], e[0], EV.eid(e[1]) if isinstance(e[1], str) else e[1], e[2], bytes(e[3])))
    real = EV.realize(evs, ts_list=ts)
    parser = EV.new_traces_parser()
    traces = list(parser.feed_generator(real))
    return parser, traces


def prop_text(ctx, case):
    kind, n, seed, density = case['kind'], case['n'], case['seed'], case['density']
    tid = 0x42
    text = utf8_text(n, seed) if case['utf8'] else ascii_exact(n, seed)
    raw = text.encode()
    assert len(raw) == n
    from pykdebugparser.trace_handlers.fsystem import VfsLookup
    from pykdebugparser.trace_handlers.trace import TraceStringGlobal, TraceStringThreadname, TraceStringThreadnamePrev
    if kind == 'lookup':
        vnode = S.expand_words(seed, 9)[0]
        chunks = EV.lookup_events(tid, vnode, raw)
        evs = weave(chunks, seed, tid, density)
        parser, traces = guard(feed, evs, [0, 0, -1, -2][seed % 4])
        mine = [t for t in traces if isinstance(t, VfsLookup) and t.ktraces[0].tid == tid]
        if len(mine) != 1:
            raise Violation('lookup-count', f'{len(mine)} lookup traces for one {n}-byte path ({len(chunks)} records): {[str(t) for t in mine]}')
        if mine[0].path != text or mine[0].vnode_id != vnode:
            raise Violation('lookup-text', f'n={n}: got {mine[0].path!r}/{mine[0].vnode_id} expected {text!r}/{vnode}')
        if any(isinstance(t, VfsLookup) for t in traces if t not in mine):
            raise Violation('fragment-trace', 'a continuation record of another thread produced a lookup trace')
    elif kind == 'global':
        dbg, sid = S.expand_words(seed, 9)[0], S.expand_words(seed, 9)[1] | 1
        chunks = EV.global_string_events(tid, dbg, sid, raw)
        evs = weave(chunks, seed, tid, density)
        again = seed % 3 == 0
        if again:        # the id was announced before with another text (ids are reused; the empty string is a string too)
            evs = EV.global_string_events(tid, dbg ^ 1, sid, b'an/earlier/text/under/the/same/id') + evs
        parser, traces = guard(feed, evs, [0, 0, -1, -2][seed % 4])
        mine = [t for t in traces if isinstance(t, TraceStringGlobal)][1 if again else 0:]
        if len(mine) != 1:
            raise Violation('string-count', f'{len(mine)} string traces for one {n}-byte string ({len(chunks)} records)')
        t = mine[0]
        if t.vstr != text or t.str_id != sid or t.debugid != dbg:
            raise Violation('string-text', f'n={n}: got {t.vstr!r} id={t.str_id} dbg={t.debugid} expected {text!r} {sid} {dbg}')
        exp = {sid: text} if text else {}
        if not again and dict(parser.global_strings) != exp:
            raise Violation('global-strings-table', f'n={n}: table {dict(parser.global_strings)!r} expected {exp!r}')
    else:
        code = 'TRACE_STRING_THREADNAME' if kind == 'threadname' else 'TRACE_STRING_THREADNAME_PREV'
        cls_ = TraceStringThreadname if kind == 'threadname' else TraceStringThreadnamePrev
        chunks = EV.threadname_events(tid, raw, code)
        evs = weave(chunks, seed, tid, density)
        parser, traces = guard(feed, evs, [0, 0, -1, -2][seed % 4])
        mine = [t for t in traces if isinstance(t, cls_)]
        if len(mine) != 1:
            raise Violation('name-count', f'{len(mine)} name traces for one {n}-byte name ({len(chunks)} records)')
        if mine[0].name != text or parser.tids_names.get(tid) != text:
            raise Violation('name-text', f'n={n}: got {mine[0].name!r} / table {parser.tids_names.get(tid)!r} expected {text!r}')
    ctx.note([kind, n, case['utf8'], density > 0], nontrivial=len(chunks) >= 3 or (kind != 'lookup' and len(chunks) >= 2),
             classes=[kind, f'chunks:{min(len(chunks), 4)}', 'utf8' if case['utf8'] else 'ascii', 'noise' if density else 'clean'])


def prop_syscall(ctx, case):
    name, lens, seed, density = case['name'], case['lens'], case['seed'], case['density']
    tid = 0x42
    paths, vnodes, repeated = [], [], 0
    evs = [SC.ev(tid, name, 1, seed, 0)]
    for i, n in enumerate(lens):
        if n == 0:
            text = ''
        elif case['utf8']:
            text = '/' + utf8_text(n - 1, seed + i).replace(' ', '_')
        else:
            text = '/' + ascii_exact(n - 1, seed + i)
        raw = text.encode()
        assert len(raw) == n
        vnode = 1000 + i
        if i and case.get('repeat', 0) >> i & 1:
            # the same file looked up again (link(p, p), a restarted path walk): same vnode id, same text
            text, raw, vnode = paths[-1], paths[-1].encode(), vnodes[-1]
            repeated += 1
        paths.append(text)
        vnodes.append(vnode)
        evs += EV.lookup_events(tid, vnode, raw)
    evs.append(SC.ev(tid, name, 2, seed, 1))
    evs = weave(evs[:-1], seed, tid, density) + [evs[-1]]
    if case.get('crowd'):
        # thousands of other threads begin calls of their own while this window (and one of its lookups) is open
        cut = 1 + seed % (len(evs) - 1)
        evs = evs[:cut] + [SC.ev(0x100000 + j, 'BSC_getpid', 1, seed + j, 0) for j in range(case['crowd'])] + evs[cut:]
    parser, traces = guard(feed, evs, case.get('same_tick', 0))
    from pykdebugparser.trace_handlers.fsystem import VfsLookup
    lk = [t for t in traces if isinstance(t, VfsLookup) and t.ktraces[0].tid == tid]
    if [t.path for t in lk] != paths:
        raise Violation('lookup-sequence', f'{name}: lookups {[t.path for t in lk]} expected {paths}')
    calls = [t for t in traces if not isinstance(t, VfsLookup) and t.ktraces[0].tid == tid and t.ktraces[0].func_qualifier == 1]
    if len(calls) != 1:
        raise Violation('call-count', f'{name}: {len(calls)} call traces')
    txt = guard(str, calls[0])
    if name == 'BSC_fsgetpath':
        want = f'path: "{paths[0]}"' if paths and paths[0] else None
        if want is not None and want not in txt:
            raise Violation('path-param', f'{name}: {txt!r} lacks {want}')
    else:
        sc = TP.split_call(txt)
        if sc is None:
            raise Violation('call-shape', f'{name}: {txt!r}')
        _, params, _ = sc
        for pos, exp in PP.expected_paths(name, paths):
            got = params[pos] if pos < len(params) else None
            if got != f'"{exp}"':
                raise Violation('path-param', f'{name} with {len(paths)} lookups: parameter {pos} is {got!r}, expected "{exp}"; text={txt!r}')
    ctx.note([name, lens, density > 0], nontrivial=len(lens) >= 2 or any(n > 56 for n in lens),
             classes=[f'lookups:{min(len(lens), 3)}', *(['repeated-lookup'] if repeated else []), *([f'crowd:{case["crowd"]}'] if case.get('crowd') else []), 'multi-path' if name not in PP.PATH_PARAMS or len(PP.PATH_PARAMS[name]) > 1 else 'one-path'])


PROPS = {'text': prop_text, 'syscall': prop_syscall}

PATH_NAMES = sorted(PP.PATH_PARAMS) + PP.SPECIAL


def run(ctx):
    base = ctx.seed * 7919
    cases = []
    for rep in range(ctx.n(3, 16)):
        for n in range(0, 185):
            cases.append({'kind': 'lookup', 'n': n, 'seed': base + 31 * n + rep, 'density': (n + rep) % 4, 'utf8': (n + rep) % 2 == 1})
        for n in range(0, 201):
            cases.append({'kind': 'global', 'n': n, 'seed': base + 37 * n + rep, 'density': (n + rep) % 3, 'utf8': (n + rep) % 2 == 0})
        for n in range(0, 64):
            cases.append({'kind': 'threadname' if (n + rep) % 2 else 'threadname_prev', 'n': n, 'seed': base + 41 * n + rep,
                          'density': 0, 'utf8': n % 3 == 0})
    ctx.run_enum('text', cases, prop_text, exhaustive_label='every text length (paths 0..184, global strings 0..200, names 0..63)')
    # every path decoder x 0..7 lookups with boundary lengths
    sc = []
    lens_pool = [0, 1, 23, 24, 25, 55, 56, 57, 88, 89, 120, 184]
    for i, name in enumerate(PATH_NAMES):
        for k in range(0, 8):
            lens = [lens_pool[(i + 3 * j + k) % len(lens_pool)] for j in range(k)]
            sc.append({'name': name, 'lens': lens, 'seed': base + i * 17 + k, 'density': (i + k) % 3, 'utf8': (i + k) % 4 == 0,
                       'same_tick': [0, 0, 2, 3, 50, -1, -2][(i + 2 * k) % 7], 'repeat': [0, 0, 2, 6, 4][(i + k) % 5]})
    for k, n in enumerate([1030, 4100, 5000] if ctx.quick else [300, 1030, 2050, 4100, 5000, 8200, 16500]):
        sc.append({'name': ['BSC_open', 'BSC_rename', 'BSC_stat64'][k % 3], 'lens': [100, 30][:1 + k % 2], 'seed': base + 900 + k, 'density': 0, 'utf8': False, 'same_tick': 0,
                   'repeat': 0, 'crowd': n})
    ctx.run_enum('syscall', sc, prop_syscall, exhaustive_label='every path-taking decoder x 0..7 lookups (+ windows with 1030..5000 other threads starting calls inside)')
    strat = st.fixed_dictionaries({'name': st.sampled_from(PATH_NAMES),
                                   'lens': st.lists(st.one_of(st.sampled_from(lens_pool), st.integers(0, 184)), max_size=7),
                                   'seed': S.u64, 'density': st.integers(0, 4), 'utf8': st.booleans(),
                                   'same_tick': st.sampled_from([0, 0, 2, 3, 4, 50, -1, -2]), 'repeat': st.sampled_from([0, 0, 0, 2, 4, 6, 255])})
    ctx.run_given('syscall', strat, prop_syscall, ctx.n(2500, 20000))
    tstrat = st.fixed_dictionaries({'kind': st.sampled_from(['lookup', 'global', 'threadname', 'threadname_prev']),
                                    'n': st.integers(0, 63), 'seed': S.u64, 'density': st.integers(0, 4), 'utf8': st.booleans()})
    ctx.run_given('text', tstrat, prop_text, ctx.n(1200, 12000))
