"""C07 — missing or unexpected context never aborts the trace stream."""
from hypothesis import strategies as st

from .. import domains, events as EV, files, kmodel, scenario as SC, strategies as S
from ..core import Violation, guard
from ..io_util import BudgetReader

ID = 'C07'
RULE = ('scenario: 1..3 per-thread programs (optionally sharing one thread id) of operation templates over EVERY '
        'decodable name (syscall/trap window with 0..3 kernel-encoded lookups and unrelated nested records, singles, '
        'dyld ops with/without their announced string, new-thread/exec data+string pairs, thread names, global '
        'strings, sampler windows, page faults with nested real-fault records of all four kinds, launch windows), '
        'merged by a generated schedule, then destructive edits: drop a prefix, drop a pseudo-random subset, duplicate '
        'events. Every surviving event is individually in-domain. templates: for every decodable name a fixed set '
        'of 28 window shapes (missing START/END, complete names / strings with a multi-byte character across a record boundary, lookups cut after their first chunk, undecoded nested kinds, ...) '
        'enumerated completely. Oracle: TracesParser.feed_generator + str() of every trace, and '
        'PyKdebugParser.formatted_traces on the same events as a v2 file (colour on and off), and the trace and callstack listings '
        'with generated process / thread / class / subclass filters and column switches (thread map present or absent), raise nothing. '
        'Non-trivial: an edit removed a record that a surviving decoder reads as context (lookup, data record, '
        'string, nested fault/stack record, a START); distinct by the (code, qualifier) sequence.')
ASSUMPTIONS = ['per-decoder argument domains are the hand-written table vf/domains.py (DESIGN.md 3.2)',
               'string-carrying records hold ASCII text, so that every chunk is valid text by itself']

CONTEXT_CODES = {'VFS_LOOKUP', 'TRACE_DATA_NEWTHREAD', 'TRACE_DATA_EXEC', 'TRACE_STRING_GLOBAL', 'PERF_THD_Data',
                 'PERF_STK_UHdr', 'PERF_STK_UData'} | set(SC.REAL_FAULT_KINDS) | set(SC.LAUNCH_NESTED)


def run_stream(evs):
    real = EV.realize(evs)
    parser = EV.new_traces_parser()
    n = 0
    for t in parser.feed_generator(real):
        str(t)
        n += 1
    return n


def run_file(evs, color):
    from pykdebugparser.pykdebugparser import PyKdebugParser
    recs = [kmodel.ev_record((1000 + 7 * i, tid, (EV.eid(code) & ~3) | q, data)) for i, (tid, code, q, data) in enumerate(evs)]
    if recs and recs[0][0] == 0:
        return 0
    blob = kmodel.v2_file([(evs[0][0] if evs else 1, 77, b'proc')], 0, recs)
    p = PyKdebugParser()
    p.color = color
    p.show_tid = True
    return sum(1 for line in p.formatted_traces(BudgetReader(blob)))


def run_file_options(evs, seed):
    """the same file through the listings with filters and column switches set: options never make a stream abort"""
    from pykdebugparser.pykdebugparser import PyKdebugParser
    recs = [kmodel.ev_record((1000 + 7 * i, tid, (EV.eid(code) & ~3) | q, data)) for i, (tid, code, q, data) in enumerate(evs)]
    if not recs or recs[0][0] == 0:
        return 0
    w = S.expand_words(seed | (1 << 41), 3)
    tm = [] if w[0] % 5 == 0 else [(evs[0][0], 77, b'proc')]
    blob = kmodel.v2_file(tm, 0, recs)
    p = PyKdebugParser()
    p.color = bool(w[0] & 1)
    p.filter_process = [None, 'proc', '77', 'nobody', '101', 'P0_x'][w[1] % 6]
    p.filter_tid = [None, None, evs[0][0], 0x999][w[2] % 4]
    p.filter_class = [[], [], [4], [0x1f, 7], [1, 3, 4, 0x25, 0x31]][w[3] % 5]
    p.filter_subclass = [[], [0x040c], [0x040c, 0x040e]][(w[3] >> 8) % 3]
    for k, sw in enumerate(('show_timestamp', 'show_tid', 'show_process')):
        setattr(p, sw, bool(w[2] >> (8 + k) & 1))
    n = sum(1 for line in p.formatted_traces(BudgetReader(blob)))
    n += sum(1 for line in p.formatted_callstacks(BudgetReader(blob)))
    return n


def hbit(seed, i, mod):
    return S.expand_words(seed | (1 << 40), i)[0] % mod


def prop_scenario(ctx, case):
    progs = []
    for i, ops in enumerate(case['programs']):
        p = SC.expand_program(i, ops)
        if i and case.get('same_tid'):
            p = [[SC.PROGRAM_TIDS[0]] + e[1:] for e in p]
        progs.append(p)
    merged = SC.merge(progs, case['schedule'])
    ed = case['edits']
    kept, dropped, dups = [], [], 0
    for i, e in enumerate(merged):
        if i < ed['prefix'] or hbit(ed['seed'], i, 8) < ed['drop8']:
            dropped.append(e)
            continue
        kept.append(e)
        if hbit(ed['seed'], 1000 + i, 16) < ed['dup16']:
            kept.append(e)
            dups += 1
    n1 = guard(run_stream, kept)
    n2 = guard(run_file, kept, bool(ed['seed'] & 1))
    guard(run_file_options, kept, ed['seed'])
    if kept and kept[0] and n1 != n2 and not (kept and kmodel.ev_record((1000, kept[0][0], 0, kept[0][3]))[0] == 0):
        raise Violation('pipeline-disagreement', f'{n1} traces from the event stream, {n2} lines from the same events as a file')
    lost_ctx = any(e[1] in CONTEXT_CODES or e[2] == 1 for e in dropped)
    cls = {'kind:' + op[0] for ops in case['programs'] for op in ops}
    if dropped:
        cls.add('dropped')
    if lost_ctx:
        cls.add('lost-context')
    if dups:
        cls.add('duplicates')
    if case.get('same_tid') and len(progs) > 1:
        cls.add('two-programs-one-thread')
    ctx.note([[e[1], e[2]] for e in kept], nontrivial=lost_ctx and bool(kept), classes=cls)


TEMPLATE_SHAPES = ['S E', 'S', 'E', 'N', 'A', 'S L E', 'S L L E', 'S L L L L L L E', 'S Lcut E', 'S J E', 'S P E',
                   'E S', 'S S E E', 'S F E', 'S G E', 'L S E', 'S T E', 'S M E', 'S Lmid E', 'S Lend E', 'S Lmid L E',
                   'S H E', 'S D E', 'S U E', 'W', 'S W E', 'X', 'S X E']


def template_events(name, shape, seed, tid=0x77):
    out = []
    k = 0
    for tok in shape.split():
        k += 1
        if tok == 'S':
            out.append(SC.ev(tid, name, 1, seed, k))
        elif tok == 'E':
            out.append(SC.ev(tid, name, 2, seed, k))
        elif tok == 'N':
            out.append(SC.ev(tid, name, 0, seed, k))
        elif tok == 'A':
            out.append(SC.ev(tid, name, 3, seed, k))
        elif tok == 'L':
            out += EV.lookup_events(tid, S.expand_words(seed, k)[0], SC.path_text(seed, k))
        elif tok == 'Lcut':
            out += EV.lookup_events(tid, 5, b'/a/long/path/that/needs/three/chunks/' + b'x' * 40)[:1]
        elif tok == 'Lmid':      # a three-chunk lookup whose START chunk was lost
            out += EV.lookup_events(tid, 5, b'/a/long/path/that/needs/three/chunks/' + b'y' * 40)[1:]
        elif tok == 'Lend':      # only the END chunk survived
            out += EV.lookup_events(tid, 5, b'/a/long/path/that/needs/three/chunks/' + b'z' * 40)[-1:]
        elif tok == 'H':
            out.append(SC.ev(tid, 'PERF_STK_UHdr', 0, seed, k))
        elif tok == 'D':
            out.append(SC.ev(tid, 'PERF_THD_Data', 0, seed, k))
        elif tok == 'U':
            out.append(SC.ev(tid, 'DYLD_uuid_shared_cache_a', 0, seed, k))
        elif tok == 'W':      # a complete thread name whose 32nd/33rd bytes are ONE two-byte character (the kernel cuts bytes, not characters)
            out += EV.threadname_events(tid, b'a' * (31 - k % 2) + 'é'.encode() * (1 + k % 2) + b'-worker', 'TRACE_STRING_THREADNAME' if k % 2 else 'TRACE_STRING_THREADNAME_PREV')
        elif tok == 'X':      # a complete announced string with a three-byte character across the first chunk boundary
            out += EV.global_string_events(tid, 1, S.expand_words(seed, 0)[1] | 1, b'b' * 15 + '€'.encode() + b'/Library/Caches/x')
        elif tok == 'J':
            out.append(SC.junk(tid, seed, k))
        elif tok == 'P':
            out.append(SC.ev(tid, 'RealFaultAddressPurgeable', 0, seed, k))
        elif tok == 'F':
            out.append(SC.ev(tid, 'RealFaultAddressInternal', 0, seed, k))
        elif tok == 'G':
            out += EV.global_string_events(tid, 1, S.expand_words(seed, 0)[1], b'some/announced/string')
        elif tok == 'T':
            out.append(SC.ev(tid, 'PERF_STK_UData', 0, seed, k))
        elif tok == 'M':
            out.append(SC.ev(tid, 'DYLD_uuid_map_a', 0, seed, k))
    return out


def prop_template(ctx, case):
    evs = template_events(case['name'], case['shape'], case['seed'])
    guard(run_stream, evs)
    if case['seed'] % 4 == 0:
        guard(run_file, evs, False)
    ctx.note([case['name'], case['shape']], nontrivial=case['shape'] not in ('S E', 'N', 'A', 'S L E'),
             classes=['template'])


PROPS = {'scenario': prop_scenario, 'template': prop_template}


def scenario_strategy():
    edits = st.fixed_dictionaries({'prefix': st.one_of(st.just(0), st.integers(0, 12)), 'seed': S.u64,
                                   'drop8': st.sampled_from([0, 0, 1, 2, 4]), 'dup16': st.sampled_from([0, 0, 1, 3])})
    return st.fixed_dictionaries({'programs': SC.programs_strategy(1, 3, 6),
                                  'schedule': st.lists(st.integers(0, 2), max_size=60),
                                  'same_tid': st.booleans(), 'edits': edits})


def run(ctx):
    names = EV.all_decodable()
    byname = EV.by_name()
    names = [n for n in names if n in byname]
    seeds = [S.expand_words(ctx.seed * 1000 + s + 4096 + 100 * ctx.shard)[0] for s in range(ctx.n(3, 8))]
    cases = ({'name': n, 'shape': sh, 'seed': sd} for sd in seeds for n in names for sh in TEMPLATE_SHAPES)
    ctx.run_enum('template', cases, prop_template, exhaustive_label='every decodable name x 28 window shapes')
    ctx.run_given('scenario', scenario_strategy(), prop_scenario, ctx.n(1200, 12000))
