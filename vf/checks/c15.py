"""C15 — callstacks take the sampled frames and attribute each to the right image."""
import uuid as _uuid

from hypothesis import strategies as st

from .. import events as EV, kmodel, scenario as SC, strategies as S
from ..core import Violation, guard
from ..io_util import BudgetReader

ID = 'C15'
RULE = ('1..3 per-thread programs merged by a generated schedule; ops: standalone DYLD_uuid_map_a, launch windows with '
        'nested map_a / shared_cache_a records and nested samples, samples = PERF_Event window with or without the '
        'USTACK flag, optional thread-info record, optional stack header whose count is below/equal/above the data '
        'supplied, 0..4 data records; load addresses from a small pool (equal, adjacent a/a+1, duplicates with '
        'different uuids, address 0 included); frames at address-1, address, address+1, 0 and 2^64-1; header counts up to 2^64-1. Oracle (declarative): exactly one '
        'callstack per sample that has the flag and a header, stamped with the START timestamp and thread; frames == '
        'first N data words; every frame attributed to the greatest announced address <= frame (first identity wins), '
        'offset = frame - address, else no image. Observed through CallstacksParser over TracesParser and through '
        'PyKdebugParser.callstacks on the same events as a file; in formatted_callstacks a frame with an image is printed with that uuid on its line, a frame without image with no announced uuid. Non-trivial: >= 2 images and a frame within +-1 of a '
        'load address, or a duplicate address, or header count != data count; distinct by stream digest.')
ASSUMPTIONS = ['a shared-cache record counts as announced at the record or at its launch END, and "earlier" is read as '
               'before the sample\'s START or before its END: a frame is accepted if any of these readings gives its attribution',
               'shared_cache_a records are generated only inside launch windows']

ADDRS = [0x1000, 0x1001, 0x2000, 0x100000000, 0x100004000, 0x7fff20000000, 1, 2 ** 63, 0]      # an image may be announced at address 0
TIDS = [0x61, 0x62, 0x63]


def uu(i):
    return bytes([i % 251 + 1]) * 16


def frame_value(k):
    base = ADDRS[(k // 5) % len(ADDRS)]
    return [base - 1, base, base + 1, 0, 2 ** 64 - 1][k % 5] % 2 ** 64


def expand(tid, ops):
    out = []

    def image(code, ai, ui):
        out.append(EV.E(tid, code, 0, data=uu(ui) + kmodel.le(ADDRS[ai % len(ADDRS)], 8) + kmodel.le(ui, 8)))

    def sample(flags, hdr, nfr, frames, thd):
        out.append(EV.E(tid, 'PERF_Event', 1, args=[flags, 1, 0, 0]))
        if thd:
            # the sampler's thread-info record may describe ANOTHER thread than the one that logs the sample: the
            # callstack is stamped with the sample's START thread
            out.append(EV.E(tid, 'PERF_THD_Data', 0, args=[77, tid if len(frames) % 2 else tid ^ 0x4000, 0, 1]))
        if hdr:
            out.append(EV.E(tid, 'PERF_STK_UHdr', 0, args=[5, nfr, 0, 0]))
        fr = [frame_value(k) for k in frames]
        for i in range(0, len(fr), 4):
            out.append(EV.E(tid, 'PERF_STK_UData', 0, args=(fr[i:i + 4] + [0xdead0000 + i] * 3)[:4]))
        out.append(EV.E(tid, 'PERF_Event', 2, args=[flags, 1, 0, 0]))
    for op in ops:
        kind = op[0]
        if kind == 'map':
            image('DYLD_uuid_map_a', op[1], op[2])
        elif kind == 'unmap':      # an image is unmapped (same address, same uuid as an announcement): samples are still
            image('DYLD_uuid_unmap_a', op[1], op[2])      # attributed among the images announced earlier in the stream
        elif kind == 'sample':
            sample(*op[1:])
        elif kind == 'launch':
            out.append(EV.E(tid, 'DBG_DYLD_TIMING_LAUNCH_EXECUTABLE', 1, args=[0, 0x100000000, 0, 0]))
            for n in op[1]:
                if n[0] == 'map':
                    image('DYLD_uuid_map_a', n[1], n[2])
                elif n[0] == 'sc':
                    image('DYLD_uuid_shared_cache_a', n[1], n[2])
                else:
                    sample(*n[1:])
            out.append(EV.E(tid, 'DBG_DYLD_TIMING_LAUNCH_EXECUTABLE', 2, args=[0, 0, 0, 0]))
    return out


def model(evs):
    """four readings -> per sample: (start index, tid, frames, [set of accepted (uuid, offset) per frame])"""
    def attributions(sc_at_record, cut_at_start):
        images = []       # (addr, uuid) in announcement order
        pending = {}      # tid -> list of shared-cache records waiting for launch END
        open_sample = {}
        res = {}
        for k, (tid, code, q, data) in enumerate(evs):
            addr = int.from_bytes(data[16:24], 'little')
            if code == 'DYLD_uuid_map_a':
                images.append((addr, bytes(data[:16])))
            elif code == 'DYLD_uuid_shared_cache_a':
                if sc_at_record:
                    images.append((addr, bytes(data[:16])))
                else:
                    pending.setdefault(tid, []).append((addr, bytes(data[:16])))
            elif code == 'DBG_DYLD_TIMING_LAUNCH_EXECUTABLE':
                if q == 1:
                    pending[tid] = []
                elif q == 2:
                    images.extend(sorted(pending.pop(tid, []), key=lambda x: x[0]))
            elif code == 'PERF_Event' and q == 1:
                open_sample[tid] = (k, list(images))
            elif code == 'PERF_Event' and q == 2 and tid in open_sample:
                k0, snap = open_sample.pop(tid)
                res[k0] = snap if cut_at_start else list(images)
        return res
    readings = [attributions(a, b) for a in (True, False) for b in (True, False)]
    samples = []
    open_ = {}
    for k, (tid, code, q, data) in enumerate(evs):
        if code == 'PERF_Event' and q == 1:
            open_[tid] = [k, int.from_bytes(data[:8], 'little'), None, []]
        elif tid in open_ and code == 'PERF_STK_UHdr' and open_[tid][2] is None:
            open_[tid][2] = int.from_bytes(data[8:16], 'little')
        elif tid in open_ and code == 'PERF_STK_UData':
            open_[tid][3] += [int.from_bytes(data[8 * i:8 * i + 8], 'little') for i in range(4)]
        elif code == 'PERF_Event' and q == 2 and tid in open_:
            k0, flags, n, words = open_.pop(tid)
            if flags & 0x08 and n is not None:
                frames = words[:n]
                acc = []
                for f in frames:
                    s = set()
                    for r in readings:
                        first = {}
                        for a, u in r[k0]:
                            first.setdefault(a, u)
                        below = [a for a in first if a <= f]
                        if below:
                            a = max(below)
                            s.add((first[a], f - a))
                        else:
                            s.add((None, None))
                    acc.append(s)
                samples.append((k0, tid, frames, acc, n, len(words)))
    return samples


def observe_objects(evs):
    from pykdebugparser.callstacks_parser import CallstacksParser
    real = EV.realize(evs)
    tp = EV.new_traces_parser()
    cp = CallstacksParser([], [])
    return real, list(cp.feed_generator(tp.feed_generator(real)))


def observe_file(evs):
    from pykdebugparser.pykdebugparser import PyKdebugParser
    recs = [kmodel.ev_record((1000 + 7 * i, tid, EV.eid(code) | q, data)) for i, (tid, code, q, data) in enumerate(evs)]
    blob = kmodel.v2_file([], 0, recs)
    return list(PyKdebugParser().callstacks(BudgetReader(blob)))


def observe_lines(evs):
    from pykdebugparser.pykdebugparser import PyKdebugParser
    recs = [kmodel.ev_record((1000 + 7 * i, tid, EV.eid(code) | q, data)) for i, (tid, code, q, data) in enumerate(evs)]
    blob = kmodel.v2_file([], 0, recs)
    p = PyKdebugParser()
    return [str(x) for x in p.formatted_callstacks(BudgetReader(blob))]


def compare(stacks, samples, ts_of):
    if len(stacks) != len(samples):
        raise Violation('callstack-count', f'{len(stacks)} callstacks for {len(samples)} stack samples')
    for cs, (k0, tid, frames, acc, n, nw) in zip(stacks, samples):
        if cs.timestamp != ts_of(k0) or cs.tid != tid:
            raise Violation('callstack-stamp', f'stamp ({cs.timestamp}, {cs.tid:#x}) expected ({ts_of(k0)}, {tid:#x})')
        got = [f.address for f in cs.frames]
        if got != frames:
            raise Violation('callstack-frames', f'frames {got} expected {frames} (header count {n}, {nw} data words)')
        for f, ok in zip(cs.frames, acc):
            u = f.uuid.bytes if isinstance(f.uuid, _uuid.UUID) else f.uuid
            if (u, f.offset) not in ok:
                raise Violation('frame-attribution', f'frame {f.address:#x} attributed to ({u.hex() if u else None}, {f.offset}) '
                                                     f'expected one of {[(a.hex() if a else None, o) for a, o in ok]}')
            if f.offset is not None and f.offset < 0:
                raise Violation('negative-offset', f'{f}')


def prop_stream(ctx, case):
    progs = [expand(TIDS[i], ops) for i, ops in enumerate(case['programs'])]
    evs = SC.merge(progs, case['schedule'])
    samples = model(evs)
    samples.sort(key=lambda s: next(k for k, e in enumerate(evs) if k > s[0] and e[0] == s[1] and e[1] == 'PERF_Event' and e[2] == 2))
    real, stacks = guard(observe_objects, evs)
    compare(stacks, samples, lambda k: real[k].timestamp)
    stacks2 = guard(observe_file, evs)
    compare(stacks2, samples, lambda k: 1000 + 7 * k)
    # the rendered listing says the same as the objects: a frame attributed to an image is printed with that image (its
    # uuid appears on the frame's line), a frame without image is not printed with any announced uuid
    lines = guard(observe_lines, evs)
    if len(lines) != len(stacks2):
        raise Violation('callstack-lines', f'{len(lines)} rendered callstacks for {len(stacks2)} callstack objects')
    known = {uu(i).hex() for i in range(11)}
    for cs, text in zip(stacks2, lines):
        rows = text.split('\n')[1:]
        if len(rows) != len(cs.frames):
            raise Violation('callstack-lines', f'{len(rows)} frame lines for {len(cs.frames)} frames: {text!r}')
        for f, row in zip(cs.frames, rows):
            flat = row.replace('-', '').lower()
            u = (f.uuid.bytes if isinstance(f.uuid, _uuid.UUID) else f.uuid)
            shown = [h for h in known if h in flat]
            if (u is not None and u.hex() not in flat) or (u is None and shown):
                raise Violation('frame-line', f'frame {f.address:#x} attributed to {u.hex() if u else None} + {f.offset} is printed as {row.strip()!r}')
    imgs = [e for e in evs if e[1] in ('DYLD_uuid_map_a', 'DYLD_uuid_shared_cache_a')]
    addrs = [int.from_bytes(e[3][16:24], 'little') for e in imgs]
    dup = len(set(addrs)) < len(addrs)
    near = any(any(abs(f - a) <= 1 for a in addrs) for s in samples for f in s[2])
    mism = any(s[4] != s[5] for s in samples)
    amb = any(len(a) > 1 for s in samples for a in s[3])
    cls = ['samples:%d' % min(len(samples), 3), 'images:%d' % min(len(imgs), 4)]
    for flag, name in ((dup, 'duplicate-address'), (near, 'frame-near-load-address'), (mism, 'count-mismatch'), (amb, 'ambiguous-reading')):
        if flag:
            cls.append(name)
    if any(e[1] == 'DYLD_uuid_shared_cache_a' for e in evs):
        cls.append('shared-cache')
    nt = bool(samples) and ((len(imgs) >= 2 and near) or dup or mism)
    ctx.note([[e[0], e[1], e[2], e[3][16:24].hex()] for e in evs], nontrivial=nt, classes=cls)


PROPS = {'stream': prop_stream}


def op_strategy():
    ai, ui = st.integers(0, 8), st.integers(0, 9)
    frames = st.lists(st.integers(0, 39), max_size=12)
    # the header count is a full 64-bit word: mostly small, sometimes far above anything the data records can supply
    count = st.one_of(st.integers(0, 14), st.integers(0, 14), st.integers(0, 14),
                      st.sampled_from([2 ** 32, 2 ** 32 + 2, 2 ** 32 + 5, 2 ** 31, 0xffffffff, 2 ** 63, 2 ** 63 + 3, 2 ** 64 - 1, 2 ** 48 + 1]))
    sample = st.tuples(st.just('sample'), st.sampled_from([0x08, 0x09, 0x08, 0x3fff, 0x01, 0]), st.sampled_from([True, True, True, False]),
                       count, frames, st.booleans())
    mp = st.tuples(st.just('map'), ai, ui)
    sc = st.tuples(st.just('sc'), ai, ui)
    launch = st.tuples(st.just('launch'), st.lists(st.one_of(mp, sc, sc, sample), max_size=5))
    # one launch announcing the same address twice (shared cache and/or image records with different identities)
    dup = st.tuples(st.just('launch'), st.tuples(ai, ui, ui, st.sampled_from(['sc', 'sc', 'map'])).map(
        lambda t: [['sc', t[0], t[1]], [t[3], t[0], t[2]], ['sc', (t[0] + 3) % 8, t[2]]]))
    near = st.tuples(st.just('sample'), st.just(0x08), st.just(True), st.integers(4, 12),
                     st.lists(st.integers(0, 39), min_size=4, max_size=12), st.booleans())
    unmap = st.tuples(st.just('unmap'), ai, ui)
    return st.one_of(mp, mp, sample, sample, launch, dup, near, unmap).map(lambda t: [list(x) if isinstance(x, tuple) else x for x in t])


def run(ctx):
    strat = st.fixed_dictionaries({
        'programs': st.lists(st.lists(op_strategy(), min_size=1, max_size=7), min_size=1, max_size=3),
        'schedule': st.lists(st.integers(0, 2), max_size=80)})
    ctx.run_given('stream', strat, prop_stream, ctx.n(700, 12000))
