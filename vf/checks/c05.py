"""C05 — per-thread results are invariant under interleaving of threads."""
from hypothesis import strategies as st

from .. import events as EV, scenario as SC, strategies as S
from ..core import Violation, guard

ID = 'C05'
RULE = ('2..4 per-thread programs of operation templates (syscalls with lookups, raw qualifier sequences, new-thread and '
        'exec data+string pairs, thread names, global strings, dyld ops with their own strings, sampler windows, page '
        'faults, launches; child tids, pids and string ids partitioned per program by construction) and a generated '
        'schedule (list of thread indexes, biased towards fine-grained alternation); records keep their own timestamps '
        '(a record may be duplicated within one tick), a thread may log a terminate record naming another thread, and in 40% of the cases all '
        'threads draw their calls from one pool of 1..3 names (process-creating calls at raised weight); sub-check crowd: 1030 / 4100 (thorough: up '
        'to 16500) other threads begin calls inside one thread\'s open() window. Oracle (metamorphic): the serial '
        'schedule and the interleaved schedule, each on a fresh parser, give for every thread the same list of '
        '(rendered text, identity of the events in the window) and the same final pids_names, threads_pids, tids_names '
        'and global_strings. Non-trivial: the schedule splits a data/string pair or a START..END window with an event '
        'of another thread; distinct by (programs, schedule) digest.')
ASSUMPTIONS = ['decoders that by design read tables written by other threads are excluded by partitioning the resources']


def stamp(i, p, progs, shared_clock=False):
    """timestamps belong to the records, not to the merge: position in the own program (a duplicated record keeps the
    timestamp of its original: two byte-identical records of one thread within one tick)"""
    k = p
    while k > 0 and progs[i][k] is progs[i][k - 1]:
        k -= 1
    # shared_clock: the CPUs log in the same ticks (records of different threads carry EQUAL timestamps)
    return (1000 if shared_clock else 100000 * (i + 1)) + 7 * k


def run_schedule(progs, order, shared_clock=False):
    """order: list of (prog index, position). returns per-tid results and final tables"""
    evs = [progs[i][p] for i, p in order]
    real = EV.realize(evs, ts_list=[stamp(i, p, progs, shared_clock) for i, p in order])
    ident = {id(o): order[k] for k, o in enumerate(real)}
    parser = EV.new_traces_parser()
    per_tid = {}
    for t in parser.feed_generator(real):
        if t is not None:
            tid = t.ktraces[0].tid
            per_tid.setdefault(tid, []).append((normal_text(t), [ident.get(id(o), ('foreign-event', o.tid, o.timestamp)) for o in t.ktraces]))
    tables = {'pids_names': dict(parser.pids_names), 'threads_pids': dict(parser.threads_pids),
              'tids_names': dict(parser.tids_names), 'global_strings': dict(parser.global_strings)}
    return per_tid, tables


def normal_text(t):
    s = str(t)
    # a terminate record names another thread and shows that thread's current attribution/name by design
    return s.split(',')[0] if s.startswith('Thread terminated tid:') else s


DUP_OK = set(SC.JUNK) | {'MACH_SCHED', 'MACH_MKRUNNABLE', 'BSC_getpid', 'DecrTrap', 'PERF_THD_CSwitch', 'TRACE_STRING_PROC_EXIT'}


def prop_interleave(ctx, case):
    progs = [SC.expand_program(i, ops, partition=True) for i, ops in enumerate(case['programs'])]
    n = len(progs)
    for i, k in case.get('terminates', []):
        i %= n
        if n > 1 and progs[i]:
            pos = k % (len(progs[i]) + 1)
            progs[i].insert(pos, EV.E(SC.PROGRAM_TIDS[i], 'TRACE_DATA_THREAD_TERMINATE', 0, args=[SC.PROGRAM_TIDS[(i + 1) % n], 0, 0, 0]))
    for i, k in case.get('dups', []):
        i %= n
        cand = [p for p, e in enumerate(progs[i]) if e[2] == 0 and e[1] in DUP_OK]
        if cand:
            p = cand[k % len(cand)]
            progs[i].insert(p + 1, progs[i][p])        # the very same record twice (same object: same timestamp)
    serial = [(i, p) for i, pr in enumerate(progs) for p in range(len(pr))]
    pos = [0] * len(progs)
    inter = []
    for s in case['schedule']:
        i = s % len(progs)
        if pos[i] < len(progs[i]):
            inter.append((i, pos[i]))
            pos[i] += 1
    for i, pr in enumerate(progs):
        inter += [(i, p) for p in range(pos[i], len(pr))]
    shared_clock = len(case['schedule']) % 2 == 0
    r1, t1 = guard(run_schedule, progs, serial, shared_clock)
    r2, t2 = guard(run_schedule, progs, inter, shared_clock)
    for tid in sorted(set(r1) | set(r2)):
        a, b = r1.get(tid, []), r2.get(tid, [])
        if a != b:
            k = next((i for i in range(min(len(a), len(b))) if a[i] != b[i]), min(len(a), len(b)))
            raise Violation('per-thread-result', f'thread {tid:#x}: serial {a[k:k + 1]} vs interleaved {b[k:k + 1]} '
                                                 f'(trace {k} of {len(a)}/{len(b)}); schedule={inter[:40]}')
    for name in t1:
        if t1[name] != t2[name]:
            d = {k: (t1[name].get(k), t2[name].get(k)) for k in set(t1[name]) | set(t2[name]) if t1[name].get(k) != t2[name].get(k)}
            raise Violation(f'table:{name}', f'{name} differs (serial, interleaved): {d}')
    # non-trivial: a pair or window split by another thread's event
    split = False
    where = {o: k for k, o in enumerate(inter)}
    for i, pr in enumerate(progs):
        opened = {}
        for p, e in enumerate(pr):
            code, q = e[1], e[2]
            if q == 1:
                opened[code] = p
            elif q == 2 and code in opened:
                ps = opened.pop(code)
                if where[(i, p)] - where[(i, ps)] > p - ps:
                    split = True
            if code in ('TRACE_STRING_NEWTHREAD', 'TRACE_STRING_EXEC') and p > 0 and where[(i, p)] - where[(i, p - 1)] > 1:
                split = True
    cls = {'threads:%d' % len(progs)}
    cls |= {'kind:' + op[0] for ops in case['programs'] for op in ops}
    if case.get('dups'):
        cls.add('duplicate-record')
    if case.get('terminates'):
        cls.add('terminate-names-other-thread')
    if split:
        cls.add('pair-or-window-split')
    if inter != serial:
        cls.add('really-interleaved')
    if case.get('shared_names'):
        cls.add('same-calls-on-every-thread')
    if shared_clock:
        cls.add('equal-timestamps-across-threads')
    ctx.note(None, nontrivial=split and inter != serial, classes=cls)


def prop_crowd(ctx, case):
    """thousands of threads: one thread's call (with a looked-up path) stays open while `n` other threads each begin
    (and possibly finish) a call of their own; every thread's results are those of its own records"""
    n, seed = case['n'], case['seed']
    victim = 0x101
    path = b'/crowd/' + b'p' * (20 + seed % 60)
    own = [SC.ev(victim, 'BSC_open', 1, seed, 0)] + EV.lookup_events(victim, 77, path) + [SC.ev(victim, 'BSC_open', 2, seed, 1)]
    others = []
    for i in range(n):
        tid = 0x100000 + i
        others.append([SC.ev(tid, 'BSC_getpid' if i % 2 else 'BSC_read', 1, seed + i, 0)] + ([SC.ev(tid, 'BSC_getpid' if i % 2 else 'BSC_read', 2, seed + i, 1)] if i % 3 else []))
    cut = 1 + case['cut'] % (len(own) - 1)
    progs = [own] + others
    serial = [(i, p) for i, pr in enumerate(progs) for p in range(len(pr))]
    inter = [(0, p) for p in range(cut)] + [(i, 0) for i in range(1, n + 1)] + [(0, p) for p in range(cut, len(own))] + \
            [(i, 1) for i in range(1, n + 1) if len(progs[i]) > 1]
    r1, t1 = guard(run_schedule, progs, serial)
    r2, t2 = guard(run_schedule, progs, inter)
    for tid in sorted(set(r1) | set(r2)):
        a, b = r1.get(tid, []), r2.get(tid, [])
        if a != b:
            raise Violation('per-thread-result:crowd', f'thread {tid:#x} with {n} other threads starting calls inside its open() window: alone {[x[0] for x in a][:3]}, '
                                                       f'in the crowd {[x[0] for x in b][:3]}')
    if not r1.get(victim) or t1 != t2:
        raise Violation('per-thread-result:crowd', f'tables differ or the reference run produced nothing ({len(r1.get(victim, []))} traces)')
    ctx.note(['crowd', n, cut, seed], nontrivial=True, classes=[f'crowd:{n}'])


def prop_same_tick(ctx, case):
    """two threads on two CPUs doing the same thing in the same ticks (equal timestamps, equal record counts) on different
    paths: each thread's traces are those of its own records, whichever thread the merge lists first"""
    seed, n = case['seed'], case['n']
    tids = SC.PROGRAM_TIDS[:2]
    paths = [b'/same/tick/%d/' % i + SC.path_text(seed + i, i)[:n] .replace(b'/', b'_') for i in range(2)]
    paths = [p + bytes([0x61 + i]) * (n - len(p)) if len(p) < n else p[:n - 1] + bytes([0x61 + i]) for i, p in enumerate(paths)]
    progs = [[SC.ev(t, 'BSC_open', 1, seed, 0)] + EV.lookup_events(t, 77, paths[i]) + [SC.ev(t, 'BSC_open', 2, seed, 1)] for i, t in enumerate(tids)]
    if len(progs[0]) != len(progs[1]):
        return
    serial = [(i, p) for i in range(2) for p in range(len(progs[i]))]
    swapped = [(i, p) for i in (1, 0) for p in range(len(progs[i]))]
    alternating = [(i, p) for p in range(len(progs[0])) for i in range(2)]
    r1, _ = guard(run_schedule, progs, serial, True)
    for label, order in (('other thread first', swapped), ('alternating', alternating)):
        r2, _ = guard(run_schedule, progs, order, True)
        for tid in tids:
            if r1.get(tid) != r2.get(tid):
                raise Violation('per-thread-result:same-tick', f'thread {tid:#x} ({label}): {[x[0] for x in r2.get(tid, [])][:3]}, '
                                                               f'serial {[x[0] for x in r1.get(tid, [])][:3]} (both threads log in the same ticks)')
    ctx.note(['same-tick', n, seed], nontrivial=True, classes=['same-tick', 'path-records:%d' % ((n + 31) // 32)])


PROPS = {'interleave': prop_interleave, 'crowd': prop_crowd, 'same_tick': prop_same_tick}


def schedule():
    fine = st.lists(st.integers(0, 3), min_size=10, max_size=150)
    alternating = st.tuples(st.integers(1, 4), st.integers(20, 150)).map(lambda t: [(k // 1) % t[0] for k in range(t[1])])
    bursts = st.lists(st.tuples(st.integers(0, 3), st.integers(1, 6)), max_size=40).map(
        lambda l: [i for i, n in l for _ in range(n)])
    return st.one_of(fine, fine, alternating, bursts)


def run(ctx):
    pairs = st.lists(st.tuples(st.integers(0, 3), st.integers(0, 40)).map(list), max_size=2)
    strat = st.fixed_dictionaries({'programs': SC.programs_strategy(2, 4, 6), 'schedule': schedule(), 'dups': pairs, 'terminates': pairs})
    ctx.run_given('interleave', strat, prop_interleave, ctx.n(800, 7000))
    # the same few calls on every thread (one thread's END may meet another thread's open START of the same call): a
    # pool of 1..3 names per case, the process-creating calls at raised weight
    special = ['BSC_execve', 'BSC_posix_spawn', 'BSC_mac_execve', 'BSC_vfork', 'BSC_fork', 'BSC_exit', 'BSC_bsdthread_create', 'BSC_wait4']
    names = [n for n in special if n in set(SC.ordinary_names())]
    pool = st.lists(st.one_of(st.sampled_from(SC.ordinary_names()), st.sampled_from(names)), min_size=1, max_size=3)
    shared = pool.flatmap(lambda ns: st.fixed_dictionaries({'programs': SC.programs_strategy(2, 4, 6, names=ns), 'schedule': schedule(),
                                                            'dups': pairs, 'terminates': pairs, 'shared_names': st.just(True)}))
    ctx.run_given('interleave', shared, prop_interleave, ctx.n(600, 5000))
    crowd = [{'n': n, 'seed': ctx.seed * 31 + k, 'cut': ctx.seed + k} for k, n in enumerate([1030, 4100] if ctx.quick else [300, 1030, 2050, 4100, 8200, 16500])]
    ctx.run_enum('same_tick', [{'seed': ctx.seed * 7919 + k, 'n': n} for k, n in enumerate([20, 24, 25, 40, 57, 120, 184])], prop_same_tick,
                 exhaustive_label=None)
    ctx.run_enum('crowd', crowd, prop_crowd, exhaustive_label='one open() window with 1030 / 4100 (thorough: up to 16500) other threads starting calls inside it')
