"""C11 — flag words and packed fields decode to exactly the names of the bits set."""
import itertools
import re

from hypothesis import strategies as st

from .. import darwin as D, events as EV, kmodel, strategies as S, textparse as TP
from ..core import Violation, guard
from .c09 import render, text_of

ID = 'C11'
RULE = ('per family, value -> names shown in the rendered text of a decoder that uses it, checked against tables typed '
        'from Darwin headers: every shown name has all its bits in the value (a zero-valued name only for a zero '
        'field); every named single bit that is set is shown; a multi-bit field (open access mode, S_IFMT) shows '
        'exactly the name of its value when one is defined; names carry Darwin values; no exception for any value. '
        'Domains: stat mode all 65536 values (quick: every 7th + all type/permission combinations), open flags all '
        '2^12 subsets x 4 access modes, access 0..15, flock 0..255, chflags all subsets, VM protection 0..255, thread '
        'state 0..255, KPERF_TI 0..65535 (quick: strided), callstack flags 0..1023, sampler 0..16383 (quick: strided), '
        'RTLD all subsets, AST and MSG words: zero, singletons, pairs, all-ones, undeclared-only bits, random; '
        'symbolic: for EVERY BSD syscall decoder, a parameter rendered as a list of flag names at position p must be the decoding of '
        'START word p (same oracle); ioctl: every named direction x every length 0..0x1fff, every group, every number (each field exhaustive, the '
        'others pseudo-random) + random words -> exact inverse of _IOC. Non-trivial: >= 2 named bits or a non-zero '
        'multi-bit field; distinct by (family, value).')
ASSUMPTIONS = ['flag tables are typed from xnu headers; kernel-private members (MSG_COMPAT.., SO_*) are a reviewed snapshot',
               'open access mode 3 and undefined file types: nothing is required of the field',
               'ioctl words whose top three bits are not a named direction are outside the statement']


def single(name, args, q=0, tid=5):
    p = EV.new_traces_parser()
    out = list(p.feed_generator(EV.realize([EV.E(tid, name, q, args=args)])))
    if len(out) != 1:
        raise Violation('trace-count', f'{name}: {len(out)} traces')
    return text_of(name, out[0])


def names_of(seg):
    return [x.strip() for x in seg.split('|') if x.strip() and x.strip() != '0']


def param(text, k):
    sc = TP.split_call(text)
    if sc is None or k >= len(sc[1]):
        raise Violation('shape', text)
    return sc[1][k]


def after(text, label, until=None):
    i = text.find(label)
    if i < 0:
        raise Violation('shape', f'{label!r} not in {text!r}')
    rest = text[i + len(label):]
    if until is not None:
        j = rest.find(until)
        rest = rest if j < 0 else rest[:j]
    return rest


def idle(v, nested=True):
    """MACH_IDLE window (the outcome is in its END record) around a complete interrupt taken while idle"""
    tid = 5
    evs = [EV.E(tid, 'MACH_IDLE', 1, args=[1, 4, 0, (~v) & 0xffffffff])]
    if nested:
        evs += [EV.E(tid, 'INTERRUPT', 1, args=[9, 9, 9, (~v) & 0x3ff]), EV.E(tid, 'INTERRUPT', 2, args=[9, 9, 9, (v ^ 0x155) & 0xffff])]
    evs.append(EV.E(tid, 'MACH_IDLE', 2, args=[1, 6, 3, v]))
    p = EV.new_traces_parser()
    out = [t for t in p.feed_generator(EV.realize(evs)) if t.ktraces[0].eventid == EV.eid('MACH_IDLE')]
    if len(out) != 1:
        raise Violation('trace-count', f'MACH_IDLE: {len(out)} traces')
    return text_of('MACH_IDLE', out[0])


def fault_line(v, pid=0):
    """page-fault window whose nested real-fault record carries protection byte v (pid 0: a fault taken by the kernel)"""
    tid = 5
    evs = [EV.E(tid, 'MACH_vmfault', 1, args=[0x1000, 0, 0, 0]), EV.E(tid, 'RealFaultAddressInternal', 0, args=[0x1000, 3 | (v << 8), 3, pid]),
           EV.E(tid, 'MACH_vmfault', 2, args=[0x1000, 0, 0, 3])]
    p = EV.new_traces_parser()
    out = [t for t in p.feed_generator(EV.realize(evs)) if t.ktraces[0].eventid == EV.eid('MACH_vmfault')]
    if len(out) != 1:
        raise Violation('trace-count', f'MACH_vmfault: {len(out)} traces')
    return text_of('MACH_vmfault', out[0])


Z4 = [0, 0, 0, 0]
# family -> (observer(value) -> names, single-bit table {value: name}, fields [(mask, {value: name})], zero name or None)
FAMILIES = {
    'open': (lambda v: names_of(param(render('BSC_open', [1, v, 0, 0], Z4), 1)),
             {v: n for v, n in D.O_FLAGS.items() if v > 2}, [(3, {0: 'O_RDONLY', 1: 'O_WRONLY', 2: 'O_RDWR'})], None),
    'openat': (lambda v: names_of(param(render('BSC_openat', [1, 2, v, 0], Z4), 2)),
               {v: n for v, n in D.O_FLAGS.items() if v > 2}, [(3, {0: 'O_RDONLY', 1: 'O_WRONLY', 2: 'O_RDWR'})], None),
    'stat': (lambda v: names_of(param(render('BSC_chmod', [1, v, 0, 0], Z4), 1)), D.S_FLAGS, [(D.S_IFMT, D.S_TYPES)], None),
    'stat-fchmod': (lambda v: names_of(param(render('BSC_fchmod', [1, v, 0, 0], Z4), 1)), D.S_FLAGS, [(D.S_IFMT, D.S_TYPES)], None),
    'access': (lambda v: names_of(param(render('BSC_access', [1, v, 0, 0], Z4), 1)),
               {v: n for v, n in D.ACCESS.items() if v}, [], 'F_OK'),
    'flock': (lambda v: names_of(param(render('BSC_sys_flock', [1, v, 0, 0], Z4), 1)), D.LOCK, [], None),
    'chflags': (lambda v: names_of(param(render('BSC_chflags', [1, v, 0, 0], Z4), 1)), D.CHFLAGS, [], None),
    'fchflags': (lambda v: names_of(param(render('BSC_fchflags', [1, v, 0, 0], Z4), 1)), D.CHFLAGS, [], None),
    'msg': (lambda v: names_of(param(render('BSC_recvfrom', [1, 2, 3, v], Z4), 3)), D.MSG, [], None),
    'vmprot': (lambda v: names_of(after(single('RealFaultAddressInternal', [1, 3 | (v << 8) | (77 << 16), 3, 4]), 'vm_prot: ', ', type:')),
               {v: n for v, n in D.VM_PROT.items() if v}, [], 'VM_PROT_NONE'),
    'ast': (lambda v: names_of(after(single('MACH_SCHED', [v, 2, 3, 4]), 'reason: ')),
            {v: n for v, n in D.AST.items() if v}, [], 'AST_NONE'),
    'ast-dispatch': (lambda v: names_of(after(single('MACH_DISPATCH', [1, v, 0, 4]), 'reason: ', ', state:')),
                     {v: n for v, n in D.AST.items() if v}, [], 'AST_NONE'),
    'vmprot-fault': (lambda v: names_of(after(fault_line(v), 'vm_prot: ', ', pid:')), {v: n for v, n in D.VM_PROT.items() if v}, [], 'VM_PROT_NONE'),
    'ast-idle': (lambda v: names_of(after(idle(v), 'reason: ', ', state:')), {v: n for v, n in D.AST.items() if v}, [], 'AST_NONE'),
    'thstate': (lambda v: names_of(after(single('MACH_DISPATCH', [1, 0, v, 4]), 'state: ')), D.TH_STATE, [], None),
    'kperfti': (lambda v: names_of(after(single('PERF_THD_Data', [1, 2, 3, v]), 'runmode: ')), D.KPERF_TI, [], None),
    'callstack': (lambda v: names_of(after(single('PERF_STK_UHdr', [v, 2, 3, 4]), 'flags: ', ', frames count')), D.CALLSTACK, [], None),
    'sampler': (lambda v: names_of(after(single('PERF_Event', [v, 2, 3, 4]), 'sample_what: ', ', actionid')), D.SAMPLER, [], None),
    'rtld': (lambda v: names_of(param(render('DBG_DYLD_TIMING_DLOPEN', [0, 0, v, 0], [0, 5, 0, 0]), 1)), D.RTLD, [], None),
}
WIDTH = {'kperfti': 16, 'vmprot': 8, 'vmprot-fault': 8}
# the field a zero-valued name speaks for: access mode is the 3-bit R|W|X field; AST/VM words are whole words
ZERO_FIELD = {'access': 7}


# a field packed into a word with neighbours: the names shown for it are a function of the field alone
NEIGHBOURS = {
    'vmprot': [lambda v: names_of(after(single('RealFaultAddressInternal', [1, 1 | (v << 8), 3, 4]), 'vm_prot: ', ', type:')),
               lambda v: names_of(after(single('RealFaultAddressExternal', [9, 2 | (v << 8) | (0xffff << 16), 3, 4]), 'vm_prot: ', ', type:'))],
    'thstate': [lambda v: names_of(after(single('MACH_DISPATCH', [7, 0xffff, v, 0]), 'state: '))],
    'ast-dispatch': [lambda v: names_of(after(single('MACH_DISPATCH', [7, v, 0xff, 9]), 'reason: ', ', state:'))],
    'callstack': [lambda v: names_of(after(single('PERF_STK_UHdr', [v, 500, 0, 0]), 'flags: ', ', frames count'))],
    'ast-idle': [lambda v: names_of(after(idle(v, nested=False), 'reason: ', ', state:'))],
    'vmprot-fault': [lambda v: names_of(after(fault_line(v, 77), 'vm_prot: ', ', pid:'))],
}


def check_word(fam, v):
    obs, bits, fields, zero_name = FAMILIES[fam]
    shown = guard(obs, v)
    judge(fam, v, shown)
    for other in NEIGHBOURS.get(fam, ()):
        again = guard(other, v)
        judge(fam, v, again)
        if again != shown:
            raise Violation(f'field-depends-on-neighbours:{fam}', f'{fam} {v:#x}: shown as {shown} beside one set of neighbouring fields and as {again} beside another')
    return shown


def judge(fam, v, shown):
    """the oracle proper: names `shown` for value `v` of family `fam`"""
    _, bits, fields, zero_name = FAMILIES[fam]
    if len(set(shown)) != len(shown):
        raise Violation(f'duplicate-name:{fam}', f'{fam} {v:#x}: {shown}')
    known = {n: val for val, n in bits.items()}
    for mask, tbl in fields:
        for val, n in tbl.items():
            known[n] = val
    veff = v & ((1 << WIDTH[fam]) - 1) if fam in WIDTH else v
    for n in shown:
        if n == zero_name:
            if veff & ZERO_FIELD.get(fam, (1 << 64) - 1) != 0:
                raise Violation(f'zero-name-for-nonzero:{fam}', f'{fam} {v:#x}: shows {n} although the word is not zero ({shown})')
            continue
        if n not in known:
            val = tool_value(n)
            if val is None:
                raise Violation(f'unknown-name:{fam}', f'{fam} {v:#x}: shows {n}, which is neither in the reviewed table nor declared by the tool')
            known[n] = val
        val = known[n]
        field = next((m for m, tbl in fields if n in tbl.values()), None)
        if field is not None:
            if veff & field != val and not (fam.startswith('open') and veff & 3 == 3):
                raise Violation(f'field-name-mismatch:{fam}', f'{fam} {v:#x}: shows {n} (={val:#x}) but the field holds {veff & field:#x}')
        elif val == 0 or veff & val != val:
            raise Violation(f'name-without-bits:{fam}', f'{fam} {v:#x}: shows {n} (={val:#x}) whose bits are not set')
    for val, n in bits.items():
        if val and veff & val == val and n not in shown:
            raise Violation(f'set-bit-not-shown:{fam}:{n}', f'{fam} {v:#x}: bit {n} (={val:#x}) is set but not shown: {shown}')
    for mask, tbl in fields:
        f = veff & mask
        if f in tbl:
            got = [n for n in shown if n in tbl.values()]
            if got != [tbl[f]]:
                raise Violation(f'field-not-shown:{fam}:{tbl[f]}', f'{fam} {v:#x}: field {f:#o} should show exactly {tbl[f]}, shows {got}')
    if zero_name and veff == 0 and shown not in ([zero_name], []):
        raise Violation(f'zero-word:{fam}', f'{fam}: zero shows {shown}')
    return shown


_tool_values = {}


def tool_value(name):
    """value the tool itself declares for a flag name the reviewed tables do not know (new members)"""
    if not _tool_values:
        import enum
        import importlib
        for m in ('bsd', 'mach', 'perf', 'dyld'):
            mod = importlib.import_module('pykdebugparser.trace_handlers.' + m)
            for obj in vars(mod).values():
                if isinstance(obj, type) and issubclass(obj, enum.Enum):
                    for mem in obj.__members__.values():
                        if isinstance(mem.value, int):
                            _tool_values.setdefault(mem.name, mem.value)
    return _tool_values.get(name)


def prop_word(ctx, case):
    fam, v = case['family'], case['value']
    shown = check_word(fam, v)
    ctx.note([fam, v], nontrivial=len(shown) >= 2 or any(v & m for m, _ in FAMILIES[fam][2]), classes=[fam])


def prop_values(ctx, case):
    """(d) names carry Darwin's numeric values: the tool's own enums against the reviewed tables"""
    n_checked = 0
    for tbl in (D.O_FLAGS, D.S_FLAGS, D.S_TYPES, D.ACCESS, D.LOCK, D.CHFLAGS, D.MSG, D.VM_PROT, D.AST, D.TH_STATE,
                D.KPERF_TI, D.CALLSTACK, D.SAMPLER, D.RTLD):
        for val, n in tbl.items():
            tv = tool_value(n)
            if tv is not None and tv != val:
                raise Violation(f'value:{n}', f'{n} is {tv:#x} in the tool, {val:#x} on Darwin')
            n_checked += 1
            ctx.note(['value', n], nontrivial=True, classes=['enum-value'])


IOC_RE = re.compile(r"^ioctl\((\d+), (0x[0-9a-f]+) /\* _IOC\((.*?), '(.)', (\d+), (\d+)\) \*/, (0x[0-9a-f]+)\)", re.S)


def prop_ioctl(ctx, case):
    d, g, n, ln = case['dir'], case['group'], case['num'], case['len']
    req = kmodel.ioc(d, g, n, ln)
    txt = guard(render, 'BSC_ioctl', [3, req, 9, 0], Z4)
    m = IOC_RE.match(txt)
    if not m:
        raise Violation('ioctl-shape', f'{txt!r}')
    fd, hx, dname, gch, num, length, arg = m.groups()
    exp = (D.IOC_DIR_NAMES[d], chr(g), str(n), str(ln))
    if (dname, gch, num, length) != exp or int(hx, 16) != req:
        raise Violation('ioctl-inverse', f'_IOC({d:#x}, {g}, {n}, {ln}) = {req:#x} rendered as {txt!r}; expected {exp}')
    ctx.note(['ioctl', req], nontrivial=ln > 0 and g > 0, classes=['ioctl', 'len>=0x1000' if ln >= 0x1000 else 'len<0x1000'])


PREFIX_FAMILY = [('O_', 'open'), ('S_I', 'stat'), ('LOCK_', 'flock'), ('UF_', 'chflags'), ('SF_', 'chflags'), ('MSG_', 'msg'),
                 ('RTLD_', 'rtld'), ('F_OK', 'access'), ('X_OK', 'access'), ('W_OK', 'access'), ('R_OK', 'access')]


def prop_symbolic(ctx, case):
    """every decoder: a parameter shown as a list of flag names at position p is the decoding of START word p"""
    from .. import domains
    name, seed = case['name'], case['seed']
    d = domains.project(name, 1, S.expand_words(seed + 4096, 0))
    a = [int.from_bytes(d[8 * i:8 * i + 8], 'little') for i in range(4)]
    for k in case['small']:          # keep some words small so that declared bits dominate
        a[k % 4] &= 0x1ffffff
    d = domains.project(name, 1, a)
    a = [int.from_bytes(d[8 * i:8 * i + 8], 'little') for i in range(4)]
    txt = guard(render, name, a, Z4)
    sc = TP.split_call(txt)
    if sc is None:
        return
    hits = []
    for p, ptxt in enumerate(sc[1][:4]):
        toks = names_of(ptxt)
        if not toks or not all(re.match(r'^[A-Z][A-Z0-9_]*$', t) for t in toks):
            continue
        fam = next((f for pre, f in PREFIX_FAMILY if toks[0].startswith(pre)), None)
        if fam is None:
            continue
        try:
            judge(fam, a[p], toks)
        except Violation as v:
            raise Violation(f'{v.signature}@{name}', f'{name}: parameter {p} shows {toks} but START word {p} is {a[p]:#x} ({v.message}); text={txt!r}') from v
        hits.append([p, fam])
    ctx.note([name, a], nontrivial=bool(hits), classes=['symbolic:' + f for _, f in hits] or ['symbolic:none'])


PROPS = {'word': prop_word, 'values': prop_values, 'ioctl': prop_ioctl, 'symbolic': prop_symbolic}


def subsets(bits):
    bits = sorted(bits)
    for m in range(1 << len(bits)):
        yield sum(b for i, b in enumerate(bits) if m >> i & 1)


def sparse_words(bits, width, seed):
    vals = sorted(b for b in bits if b)
    yield 0
    yield (1 << width) - 1
    yield sum(vals)
    for b in vals:
        yield b
    for a, b in itertools.combinations(vals, 2):
        yield a | b
    undeclared = [1 << i for i in range(width) if not any(v & (1 << i) for v in vals)]
    for u in undeclared:
        yield u
        yield u | vals[0]
    if undeclared:
        yield sum(undeclared)
    for k in range(300):
        yield S.expand_words(seed + 4096, k)[0] % (1 << width)


def run(ctx):
    q = ctx.quick
    cases = []

    def add(fam, values):
        for v in values:
            cases.append({'family': fam, 'value': v})
    oflags = [v for v in D.O_FLAGS if v > 2]
    for fam in ('open', 'openat'):
        add(fam, (s | m for s in subsets(oflags) for m in range(4) if not q or (s * 4 + m) % 5 == 0 or bin(s).count('1') <= 2))
        add(fam, (s | m | 0x80 | (1 << 40) for s in list(subsets(oflags))[::97] for m in range(4)))
    modes = range(0, 65536, 7 if q else 1)
    add('stat', modes)
    add('stat', (t | p for t in range(0, 0o200000, 0o10000) for p in (0, 0o755, 0o7777, 0o1, 0o4000)))
    add('stat-fchmod', range(0, 65536, 61 if q else 3))
    add('stat', (m | (1 << 16) | (1 << 33) for m in range(0, 65536, 1021)))
    add('access', range(0, 64))
    add('flock', range(0, 256))
    add('chflags', subsets(D.CHFLAGS))
    add('chflags', (s | 0x100 | (1 << 20) for s in list(subsets(D.CHFLAGS))[::7]))
    add('fchflags', list(subsets(D.CHFLAGS))[::3])
    add('msg', sparse_words(D.MSG, 32, ctx.seed))
    add('vmprot', range(256))
    add('vmprot-fault', range(256))
    add('ast', sparse_words(D.AST, 32, ctx.seed + 1))
    add('ast', (1 << i for i in range(22, 64)))
    add('ast-dispatch', sparse_words(D.AST, 24, ctx.seed + 2))
    add('ast-idle', sparse_words(D.AST, 24, ctx.seed + 3))
    add('thstate', range(256))
    add('thstate', (v << 8 | w for v in (1, 0x80, 0xff) for w in (0, 1, 0x81)))
    add('kperfti', range(0, 65536, 37 if q else 1))
    add('kperfti', (v | (1 << 16) | (1 << 40) for v in range(0, 128)))
    add('callstack', range(1024))
    add('callstack', (v | (1 << 9) | (1 << 35) for v in range(0, 512, 17)))
    add('sampler', range(0, 1 << 14, 11 if q else 1))
    add('sampler', (v | (1 << 14) | (1 << 50) for v in range(0, 1 << 14, 511)))
    add('rtld', subsets(D.RTLD))
    add('rtld', (s | 0x20 | 0x40 | (1 << 30) for s in subsets(D.RTLD)))
    ctx.run_enum('word', cases, prop_word, exhaustive_label=None if q else
                 'stat modes 0..65535, open-flag subsets x access modes, access, flock, chflags, vm_prot, thread state, KPERF_TI 0..65535, callstack flags, sampler words 0..16383, RTLD subsets')
    if ctx.shard == 0:
        ctx.run_enum('values', [{}], prop_values)
    io = []
    dirs = sorted(D.IOC_DIR_NAMES)
    for i, ln in enumerate(range(0, 0x2000, 3 if q else 1)):
        w = S.expand_words(ctx.seed * 31 + ln + 4096)
        io.append({'dir': dirs[i % 5], 'group': w[0] % 256, 'num': w[1] % 256, 'len': ln})
    for g in range(256):
        if g in (0x27,):      # a quote inside quotes: still parsed by the regex, keep
            pass
        w = S.expand_words(ctx.seed * 37 + g + 4096)
        io.append({'dir': dirs[g % 5], 'group': g, 'num': w[1] % 256, 'len': w[2] % 0x2000})
        io.append({'dir': dirs[(g + 1) % 5], 'group': w[0] % 256, 'num': g, 'len': w[2] % 0x2000})
    for d in dirs:
        for ln in (0, 1, 0xfff, 0x1000, 0x1001, 0x1fff):
            io.append({'dir': d, 'group': 0x54, 'num': 1, 'len': ln})
    ctx.run_enum('ioctl', io, prop_ioctl, exhaustive_label=None if q else 'ioctl: every length, every group, every number, every direction')
    strat = st.fixed_dictionaries({'dir': st.sampled_from(dirs), 'group': st.integers(0, 255), 'num': st.integers(0, 255),
                                   'len': st.integers(0, 0x1fff)})
    ctx.run_given('ioctl', strat, prop_ioctl, ctx.n(1000, 20000))
    byname = EV.by_name()
    decs = [n for n in EV.decodable_names()['bsd'] if n in byname]
    sym = [{'name': n, 'seed': ctx.seed * 7907 + 13 * i + 1000003 * r, 'small': [(i + r) % 4, (i + 2 * r + 1) % 4]}
           for r in range(ctx.n(6, 30)) for i, n in enumerate(decs)]
    ctx.run_enum('symbolic', sym, prop_symbolic, exhaustive_label='every BSD decoder: symbolic parameters against their own START word')
    fam = st.sampled_from(sorted(FAMILIES))
    ctx.run_given('word', st.fixed_dictionaries({'family': fam, 'value': st.one_of(S.u64, S.u32, st.integers(0, 0xffff))}),
                  prop_word, ctx.n(1500, 30000))
