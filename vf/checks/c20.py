"""C20 — composite traces reflect exactly the records nested in their window."""
from hypothesis import strategies as st

from .. import domains, events as EV, scenario as SC, strategies as S
from ..core import Violation, guard

ID = 'C20'
RULE = ('windows built by construction: MACH_vmfault (END result zero / non-zero, type 1..11) with 0..4 nested '
        'real-fault records of the three decoded kinds and the undecoded Purgeable kind in any order; '
        'DBG_DYLD_TIMING_LAUNCH_EXECUTABLE with 0..8 nested map_a / shared_cache_a / unmap_a / map_b records, pooled '
        '(equal, adjacent) load addresses; PERF_Event with arbitrary 14-bit flag words and every subset/order of '
        '{THD_Data, STK_UHdr, STK_UData x k} (stack words include null frames), also the NONE-qualified (window-less) variant. Unrelated same-thread '
        'records and relevant-kind records of OTHER threads are mixed in; a third of the windows follow an unterminated START of the same '
        'operation on the same thread with 1..3 relevant records behind it; a third of the windows reach the pairing object in portions (several '
        'feed_generator calls / feed); sub-check two_dumps: one PyKdebugParser object lists a dump that ends '
        'inside such a window and then a dump that begins with the END: the second reads as on a fresh object. Oracle: fields of the emitted object '
        'against a plain reading of the statement. Non-trivial: >= 2 candidate records, a flag/record mismatch, or an '
        'undecoded nested kind; distinct by window digest.')
ASSUMPTIONS = ['when the first nested real-fault record is of the undecoded kind, pid/protection may be omitted or '
               'taken from the first decoded one', 'order among equal load addresses is not constrained']

TID, OTHER = 0x51, 0x52
VM_PROT_BITS = [1, 2, 4, 8, 0x10, 0x20, 0x40, 0x80]
ADDR_POOL = [0x1000, 0x1001, 0x2000, 0x100000000, 0x100004000, 0x7fff00000000, 0, 2 ** 64 - 1]


def words(seed, k):
    return list(S.expand_words(seed + 4096, k))


def emit(evs, start_id_name, delivery=None):
    real = EV.realize(evs)
    # half of the windows are decoded on process tables that already know the two threads (a dump with a thread map): what
    # a composite says about its window comes from the window
    parser = EV.new_traces_parser() if len(evs) % 2 else EV.new_traces_parser(threads_pids={TID: 4242, OTHER: 4243}, pids_names={4242: 'mapped', 4243: 'other'})
    out = []
    for t in EV.deliver(parser, real, delivery):
        if t is not None and t.ktraces[0].tid == TID and t.ktraces[0].eventid == EV.eid(start_id_name):
            out.append(t)
    return out


def portions(case, n):
    """a third of the windows reach the parser in portions (cut points derived from the case seed)"""
    s = case.get('seed', case.get('fseed', 0))
    return None if s % 3 else [1 + (s >> 2) % max(n - 1, 1), (s >> 9) % (n + 1)]


def filler(case):
    """hundreds of unrelated same-thread records at the head of the window (a long-running operation)"""
    n = case.get('long', 0)
    return [SC.junk(TID, case['seed'] + j, j % 7) for j in range(n)]


def build(case, start_name):
    """case['items']: list of [kindname_or_None, seed, tid_is_other, qualifier]"""
    evs = [SC.ev(TID, start_name, 1, case['seed'], 0)] + filler(case)
    for i, (code, sd, other, x) in enumerate(case['items']):
        e = SC.ev(OTHER if other else TID, code, 0, sd, i)
        if code in SC.REAL_FAULT_KINDS and x % 4 == 0:
            e[3] = e[3][:24] + bytes(8)        # pid 0 (kernel_task): a legal value that is falsy
        evs.append(e)
    evs.append(SC.ev(TID, start_name, 2, case['seed'], 1))
    return evs


def arg(e, i):
    return int.from_bytes(e[3][8 * i:8 * i + 8], 'little')


def stale(case, start_name, mk):
    """an earlier START of the same operation on the same thread whose END never came (lost, or the dump began later),
    followed by records of the relevant kinds: they belong to no window and must not show up in the next one"""
    pre = []
    if case.get('stale'):
        pre.append(SC.ev(TID, start_name, 1, case['seed'] + 12345, 0) if mk is None else mk(None))
        for i, it in enumerate(case['stale']):
            pre.append(SC.ev(TID, it[0], 0, it[1], 50 + i) if mk is None else mk((i, it)))
    return pre


def prop_vmfault(ctx, case):
    pre = stale(case, 'MACH_vmfault', None)
    evs = build(case, 'MACH_vmfault')
    out = guard(emit, pre + evs, 'MACH_vmfault', portions(case, len(pre + evs)))
    if len(out) != 1:
        raise Violation('trace-count', f'{len(out)} page-fault traces')
    t = out[0]
    end = evs[-1]
    result, ftype = arg(end, 2), arg(end, 3)
    if t.result != result:
        raise Violation('vmfault-result', f'result {t.result} expected END word 2 = {result}')
    mine = [e for e in evs[1:-1] if e[0] == TID and e[1] in SC.REAL_FAULT_KINDS]
    cls = ['vmfault', f'nested:{min(len(mine), 3)}', 'ok' if result == 0 else 'failed', *(['after-unterminated-start'] if pre else [])]
    if result == 0:
        if getattr(t.fault_type, 'value', None) != ftype:
            raise Violation('vmfault-type', f'type {t.fault_type} expected {ftype}')
        decoded = [e for e in mine if e[1] != 'RealFaultAddressPurgeable']

        def fields(e):
            w = arg(e, 1)
            prot = (w >> 8) & 0xff
            return arg(e, 3), sorted(b for b in VM_PROT_BITS if prot & b) or [0]
        got = None if t.pid is None and t.caller_prot is None else (t.pid, sorted(p.value for p in t.caller_prot) if t.caller_prot is not None else 'no-protection')
        if not mine:
            accepted = [None]
        elif mine[0][1] == 'RealFaultAddressPurgeable':
            cls.append('first-undecoded')
            accepted = [None] + ([fields(decoded[0])] if decoded else [])
        else:
            accepted = [fields(mine[0])]
        accepted = [None if a is None else (a[0], a[1]) for a in accepted]
        if got not in accepted:
            raise Violation('vmfault-nested', f'pid/protection {got} expected one of {accepted}; nested={[e[1] for e in mine]}')
        text = guard(str, t)
        if got is not None:
            # the rendered trace carries them too: it must differ from the text of the same window without its
            # real-fault records ("omitting them when the window has no such record") - format-independent
            bare = [e for e in evs if not (e[0] == TID and e[1] in SC.REAL_FAULT_KINDS)]
            o2 = guard(emit, bare, 'MACH_vmfault', None)
            if len(o2) == 1 and guard(str, o2[0]) == text:
                raise Violation('vmfault-text', f'pid/protection {got} taken from the nested record are absent from the text {text!r} '
                                                f'(same text as the window without the record)')
            if got[0] == 0:
                cls.append('pid-0')
    else:
        guard(str, t)
    ctx.note([[e[1], e[0] == OTHER] for e in evs], nontrivial=len(mine) >= 2 or 'first-undecoded' in cls, classes=cls)


def prop_launch(ctx, case):
    start = 'DBG_DYLD_TIMING_LAUNCH_EXECUTABLE'
    evs = [SC.ev(TID, start, 1, case['seed'], 0)] + filler(case)
    for i, (code, sd, other, ai) in enumerate(case['items']):
        w = words(sd, i)
        w[2] = ADDR_POOL[ai % len(ADDR_POOL)] if ai < 100 else w[2]
        evs.append(EV.E(OTHER if other else TID, code, 0, args=w))
    evs.append(SC.ev(TID, start, 2, case['seed'], 1))

    def mk(x):
        if x is None:
            return SC.ev(TID, start, 1, case['seed'] + 12345, 0)
        i, (code, sd, other, ai) = x
        w = words(sd, 50 + i)
        w[2] = ADDR_POOL[ai % len(ADDR_POOL)] if ai < 100 else w[2]
        return EV.E(TID, code, 0, args=w)
    pre = stale(case, start, mk)
    out = guard(emit, pre + evs, start, portions(case, len(pre + evs)))
    if len(out) != 1:
        raise Violation('trace-count', f'{len(out)} launch traces')
    t = out[0]
    exp = [(bytes(e[3][:16]), arg(e, 2), arg(e, 3)) for e in evs[1:-1]
           if e[0] == TID and e[1] in ('DYLD_uuid_map_a', 'DYLD_uuid_shared_cache_a')]
    got = [(m.uuid.bytes, m.load_addr, m.fsid) for m in t.uuid_map_a]
    if sorted(got) != sorted(exp):
        raise Violation('launch-images', f'images {got} expected {exp}')
    if [g[1] for g in got] != sorted(g[1] for g in got):
        raise Violation('launch-order', f'load addresses not sorted: {[hex(g[1]) for g in got]}')
    guard(str, t)
    ctx.note([[e[1], e[0] == OTHER, arg(e, 2)] for e in evs], nontrivial=len(exp) >= 2,
             classes=['launch', f'images:{min(len(exp), 3)}', 'dup-addr' if len({g[1] for g in exp}) < len(exp) else 'distinct-addr', *(['after-unterminated-start'] if pre else [])])


def prop_sample(ctx, case):
    flags = case['flags']
    evs = []
    if case['windowless']:
        evs.append(EV.E(TID, 'PERF_Event', case['q'], args=[flags, 3, 0, 0]))
        evs += [EV.E(TID, code, 0, args=words(sd, i)) for i, (code, sd, other, _) in enumerate(case['items'])]
    else:
        evs.append(EV.E(TID, 'PERF_Event', 1, args=[flags, 3, 0, 0]))
        evs += filler(dict(case, seed=case.get('fseed', 1)))
        for i, (code, sd, other, nf) in enumerate(case['items']):
            w = words(sd, i)
            if code == 'PERF_STK_UHdr':
                w[1] = nf % 14
            if code == 'PERF_STK_UData':
                for z in range(4):          # null frames (a stack ends with a zero return address)
                    if (sd >> (3 * z)) % 5 == 0:
                        w[z] = 0
            evs.append(EV.E(OTHER if other else TID, code, 0, args=w))
        evs.append(EV.E(TID, 'PERF_Event', 2, args=[flags ^ 0xffff, 9, 0, 0]))
    def mks(x):
        if x is None:
            return EV.E(TID, 'PERF_Event', 1, args=[0x3fff, 5, 0, 0])
        i, (code, sd, other, nf) = x
        w = words(sd, 50 + i)
        if code == 'PERF_STK_UHdr':
            w[1] = nf % 14
        return EV.E(TID, code, 0, args=w)
    pre = [] if case['windowless'] else stale(case, 'PERF_Event', mks)
    out = [t for t in guard(emit, pre + evs, 'PERF_Event', portions(case, len(pre + evs)))]
    if len(out) != 1:
        raise Violation('trace-count', f'{len(out)} sampler traces')
    t = out[0]
    inside = [] if case['windowless'] else [e for e in evs[1:-1] if e[0] == TID]
    thd = [e for e in inside if e[1] == 'PERF_THD_Data']
    hdr = [e for e in inside if e[1] == 'PERF_STK_UHdr']
    data = [e for e in inside if e[1] == 'PERF_STK_UData']
    want_info = bool(flags & 0x01) and bool(thd)
    want_stack = bool(flags & 0x08) and bool(hdr)
    if (t.th_info is not None) != want_info:
        raise Violation('sample-thinfo', f'th_info {"present" if t.th_info is not None else "absent"}; flags={flags:#x} THD_Data records={len(thd)}')
    if want_info:
        e = thd[0]
        if (t.th_info.pid, t.th_info.tid, t.th_info.dq_addr) != (arg(e, 0), arg(e, 1), arg(e, 2)):
            raise Violation('sample-thinfo-fields', f'{t.th_info} expected from {[arg(e, i) for i in range(4)]}')
    if (t.cs_frames is not None) != want_stack or (t.cs_flags is not None) != want_stack:
        raise Violation('sample-stack', f'stack {"present" if t.cs_frames is not None else "absent"}; flags={flags:#x} header records={len(hdr)}')
    if want_stack:
        n = arg(hdr[0], 1)
        frames = [arg(e, i) for e in data for i in range(4)][:n]
        if list(t.cs_frames) != frames:
            raise Violation('sample-frames', f'frames {list(t.cs_frames)} expected {frames} (header count {n}, {len(data)} data records)')
        bits = arg(hdr[0], 0)
        if any(not (f.value & bits) for f in t.cs_flags):
            raise Violation('sample-csflags', f'{t.cs_flags} for header flags {bits:#x}')
    guard(str, t)
    mismatch = (bool(flags & 1) != bool(thd)) or (bool(flags & 8) != bool(hdr))
    ctx.note([flags & 9, case['windowless'], [[e[1], e[0] == OTHER] for e in evs]],
             nontrivial=mismatch or len(data) >= 2 or len(hdr) >= 2,
             classes=['sample', 'windowless' if case['windowless'] else 'window', 'mismatch' if mismatch else 'match',
                      'stack' if want_stack else 'no-stack', *(['after-unterminated-start'] if pre else [])])


def prop_two_dumps(ctx, case):
    """one PyKdebugParser object, two dumps: the first ends inside an operation (START and nested records, no END),
    the second begins with the END of such an operation on the same thread: the second dump reads as on a fresh object
    (a composite built from the first dump's records would be made of records outside its window, outside its dump)"""
    from pykdebugparser.pykdebugparser import PyKdebugParser
    from .. import kmodel
    from ..io_util import BudgetReader
    start = case['start']
    first = [SC.ev(TID, start, 1, case['seed'], 0)] + [SC.ev(TID, code, 0, sd, i) for i, (code, sd, _, _) in enumerate(case['items'])]
    second = [SC.ev(TID, start, 2, case['seed'] + 1, 1)] + [SC.ev(TID, 'BSC_getpid', q, case['seed'], 2) for q in (1, 2)]
    if case['complete_after']:
        second += [SC.ev(TID, start, 1, case['seed'] + 2, 0), SC.ev(TID, start, 2, case['seed'] + 2, 1)]

    def blob(evs):
        return kmodel.v2_file([(TID, 9, b'p')], 0, [kmodel.ev_record((1001 + 7 * k, t, (EV.eid(c) & ~3) | q, d)) for k, (t, c, q, d) in enumerate(evs)])

    def texts(p, b):
        return [(t.ktraces[0].timestamp, str(t)) for t in p.traces(BudgetReader(b))]
    reused = PyKdebugParser()
    guard(texts, reused, blob(first))
    got = guard(texts, reused, blob(second))
    exp = guard(texts, PyKdebugParser(), blob(second))
    if got != exp:
        k = next((i for i in range(min(len(got), len(exp))) if got[i] != exp[i]), min(len(got), len(exp)))
        raise Violation('window-spans-dumps', f'second dump on a reused object: trace {k} is {got[k:k + 1]}, a fresh object gives {exp[k:k + 1]} '
                                              f'(the first dump ended inside a {start} window)')
    ctx.note([start, case['complete_after'], [i[0] for i in case['items']]], nontrivial=bool(case['items']), classes=['two-dumps', start])


PROPS = {'vmfault': prop_vmfault, 'launch': prop_launch, 'sample': prop_sample, 'two_dumps': prop_two_dumps}

JUNK = ['INTERRUPT', 'DecrSet', 'BSC_pread_extended_info', 'MACH_vm_page_release', 'PERF_THD_CSwitch',
        'vm_fast_fault', 'vm_disconnect_task_page_mappings', 'vm_slow_fault',      # these three: ids adjacent to the real-fault records
        *SC.LOOKALIKES, 0x99990000, 0x2501fff0, 0x1f05fff0]      # ... and ids the code table does not know at all


def items(kinds, max_n, extra=st.integers(0, 120)):
    code = st.one_of(st.sampled_from(kinds), st.sampled_from(kinds), st.sampled_from(JUNK))
    other = st.sampled_from([False, False, False, True])
    return st.one_of(st.lists(st.tuples(code, S.u64, other, extra).map(list), max_size=max_n),
                     st.lists(st.tuples(code, S.u64, other, extra).map(list), min_size=min(3, max_n), max_size=max_n))


def run(ctx):
    long_ = st.sampled_from([0] * 30 + [600, 1100])
    def stale_items(kinds, extra=st.integers(0, 120)):
        return st.one_of(st.just([]), st.just([]), st.lists(st.tuples(st.sampled_from(kinds), S.u64, st.just(False), extra).map(list), min_size=1, max_size=3))
    vm = st.fixed_dictionaries({'seed': S.u64, 'items': items(SC.REAL_FAULT_KINDS, 5), 'long': long_, 'stale': stale_items(SC.REAL_FAULT_KINDS)})
    la = st.fixed_dictionaries({'seed': S.u64, 'items': items(SC.LAUNCH_NESTED, 8), 'long': long_, 'stale': stale_items(SC.LAUNCH_NESTED)})
    sa = st.fixed_dictionaries({'flags': st.one_of(st.integers(0, 2 ** 14 - 1), st.sampled_from([0, 1, 8, 9, 0x3fff, 0x3ff6]),
                                                   st.tuples(st.integers(0, 2 ** 14 - 1), st.sampled_from([9, 9, 8, 1])).map(lambda t: t[0] | t[1])),
                                'windowless': st.sampled_from([False, False, False, True]), 'q': st.sampled_from([0, 3]), 'long': long_, 'fseed': S.u64, 'seed': S.u64,
                                'stale': stale_items(['PERF_THD_Data', 'PERF_STK_UHdr', 'PERF_STK_UData'], st.integers(0, 13)),
                                'items': items(['PERF_THD_Data', 'PERF_STK_UHdr', 'PERF_STK_UData', 'PERF_STK_UData'], 7,
                                               st.integers(0, 13))})
    kinds = {'MACH_vmfault': SC.REAL_FAULT_KINDS, 'DBG_DYLD_TIMING_LAUNCH_EXECUTABLE': SC.LAUNCH_NESTED, 'PERF_Event': ['PERF_THD_Data', 'PERF_STK_UHdr', 'PERF_STK_UData']}
    two = st.sampled_from(sorted(kinds)).flatmap(lambda sn: st.fixed_dictionaries({
        'start': st.just(sn), 'seed': S.u64, 'complete_after': st.booleans(), 'items': items(kinds[sn], 4)}))
    ctx.run_given('two_dumps', two, prop_two_dumps, ctx.n(120, 1500))
    ctx.run_given('vmfault', vm, prop_vmfault, ctx.n(600, 9000))
    ctx.run_given('launch', la, prop_launch, ctx.n(500, 7500))
    ctx.run_given('sample', sa, prop_sample, ctx.n(900, 12000))
