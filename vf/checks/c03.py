"""C03 — a version-3 dump yields all chunked events, then logs, plus metadata sections."""
from hypothesis import strategies as st

from ..io_util import BudgetReader, HOST_ZONES, zoned

import json

from .. import cli as CLI, files, kmodel, logs
from ..core import Violation, guard
from .c01 import check_event

ID = 'C03'
RULE = ('cases: version-3 dumps built by an independent encoder: fixed header with boundary-biased fields, binary '
        'cpu_info plist, stackshot filler (optionally containing the thread-map tag, partial end markers, a proper '
        'prefix of the marker right before it), filler before the thread-map tag and before every events tag, thread '
        'map 0..30, 0..80 arbitrary records split into 1..6 chunks at arbitrary points (empty chunks allowed; in a quarter of the dumps the record that '
        'closes a chunk is repeated byte for byte at the head of the next), then '
        '0..7 blocks drawn from {dyld modules, kernel extensions, trace codes, log events, unknown tags} plus '
        'optional processes / images / string-index blocks inserted at arbitrary positions; XML or binary plists; '
        'last block with or without alignment padding. Oracle: events == independent decoding of every record in '
        'order and before any log; tables == thread map extended by logs naming process+thread; every metadata '
        'section == payload (lists concatenated in file order); header fields == generated; logs == C16 expectation '
        'in order (decoded on hosts of 7 local time zones); sub-check big: chunks of 255..4097 records; sub-check straddle: a stackshot / filler of B*m-j bytes (B in 64..65536) so that the marker that ends it '
        'straddles a multiple of a typical block size; sub-check optimized: two dumps per run are listed by `python -OO -m pykdebugparser` as by `python -m pykdebugparser`; sub-check cli: the `processes`, `kexts` and `images` commands print, as JSON, the payload of their section. Non-trivial: >= 2 non-empty chunks and >= 1 metadata/log block; distinct by file digest.')
ASSUMPTIONS = ['container layout taken from the parser\'s own format description (tags, 8-byte realignment, u64 lengths)',
               'fillers never contain a complete copy of the marker that ends them (checked by construction)',
               'at most one processes block and one images block per dump; exactly one string-index block when logs exist']


class AnyOf:
    """a dict-valued section that comes in several blocks: the statement promises 'equal to its payload' - the payload of
    ONE of its blocks is accepted (never a mixture)"""
    def __init__(self, opts):
        self.opts = list(opts)

    def __eq__(self, other):
        return any(other == o for o in self.opts)

    def __ne__(self, other):
        return not self.__eq__(other)

    def __repr__(self):
        return 'one of ' + repr(self.opts)


def expected(spec):
    table = spec['table']
    _, seq = files.v3_layout(spec)
    exp = {'kexts': [], 'dyld': None, 'codes': '', 'processes': {}, 'images': {}, 'logs': []}
    seen = {}
    for kind, val in seq:
        if kind == 'kexts':
            exp['kexts'] += val['Binaries']
        elif kind == 'dyld':
            if exp['dyld'] is None:
                exp['dyld'] = {k: (list(v) if k == 'Binaries' else v) for k, v in val.items()}
            else:
                exp['dyld']['Binaries'] += val['Binaries']
        elif kind == 'codes':
            exp['codes'] += val
        elif kind in ('processes', 'images'):
            seen.setdefault(kind, []).append(val)
            exp[kind] = val if len(seen[kind]) == 1 else AnyOf(seen[kind])
        elif kind == 'logs':
            exp['logs'] += val
    tp, pn = files.expected_tables(spec['tm'])
    strs = [t[1] for t in table]
    for r in exp['logs']:
        if 'p' in r and strs[r['p']] and r['tid']:
            tp[r['tid']] = r.get('pid', 0)
            pn[r.get('pid', 0)] = strs[r['p']]
    exp['tp'], exp['pn'] = tp, pn
    return exp


def prop_file(ctx, case):
    from pykdebugparser.kd_buf_parser import KdBufParser
    from pykdebugparser.kevent import Kevent
    from pykdebugparser.os_log_event import OsLogEvent
    spec = case
    if spec.get('seam_dup'):
        # the record that closes one chunk is byte-for-byte the record that opens the next (each is a record of the dump)
        chunks = [list(c) for c in spec['chunks']]
        last = None
        for c in chunks:
            if c and last is not None:
                c[0] = last
            if c:
                last = c[-1]
        spec = dict(spec, chunks=chunks)
    if len(spec['blocks']) % 2 and isinstance(spec.get('cpu'), dict):
        # every other dump carries its processes / images section twice, with independent payloads
        spec = dict(spec, processes2=spec['cpu'], images2={str(k) + '2': v for k, v in spec['cpu'].items()} or {'SharedCache': 1})
    blob = files.build_v3(spec)
    tp, pn = {0xdead: 1}, {1: 'stale'}
    parser = KdBufParser(tp, pn)
    items = guard(lambda: list(parser.parse(BudgetReader(blob))))
    recs = files.v3_all_records(spec)
    exp = expected(spec)
    evs = [x for x in items if isinstance(x, Kevent)]
    lgs = [x for x in items if isinstance(x, OsLogEvent)]
    if len(evs) + len(lgs) != len(items):
        raise Violation('foreign-item', f'{[type(x).__name__ for x in items][:5]}')
    if len(evs) != len(recs):
        raise Violation('event-count', f'{len(evs)} events for {len(recs)} records in chunks {[len(c) for c in spec["chunks"]]}')
    if items[:len(evs)] != evs:
        raise Violation('order', 'a log record was yielded before the last event')
    for ev, rec in zip(evs, recs):
        check_event(ev, rec)
    if len(lgs) != len(exp['logs']):
        raise Violation('log-count', f'{len(lgs)} logs for {len(exp["logs"])} records')
    for lg, r in zip(lgs, exp['logs']):
        logs.check_decoded(lg, r, spec['table'], Violation)
    if dict(tp) != exp['tp']:
        raise Violation('threads_pids', f'got {dict(tp)} expected {exp["tp"]}')
    if dict(pn) != exp['pn']:
        raise Violation('pids_names', f'got {dict(pn)} expected {exp["pn"]}')
    if parser.processes != exp['processes']:
        raise Violation('processes', f'got {parser.processes!r} expected {exp["processes"]!r}')
    if parser.images != exp['images']:
        raise Violation('images', f'got {parser.images!r} expected {exp["images"]!r}')
    if parser.kernel_extensions != {'Binaries': exp['kexts']}:
        raise Violation('kernel_extensions', f'got {parser.kernel_extensions!r} expected {exp["kexts"]!r}')
    if exp['dyld'] is None:
        if parser.dyld_modules not in ({}, {'Binaries': []}):
            raise Violation('dyld_modules', f'got {parser.dyld_modules!r} expected nothing')
    elif dict(parser.dyld_modules) != exp['dyld']:
        raise Violation('dyld_modules', f'got {parser.dyld_modules!r} expected {exp["dyld"]!r}')
    if parser.trace_codes != exp['codes']:
        raise Violation('trace_codes', f'got {parser.trace_codes!r} expected {exp["codes"]!r}')
    h = parser.v3_header
    for k in kmodel.V3_HEADER_FIELDS:
        if h[k] != spec['hdr'][k]:
            raise Violation('header', f'{k}: got {h[k]} expected {spec["hdr"][k]}')
    if h['cpu_info'] != spec['cpu']:
        raise Violation('header', f'cpu_info: got {h["cpu_info"]!r}')
    # the same dump through the PyKdebugParser listings: events only / logs only, same order
    from pykdebugparser.pykdebugparser import PyKdebugParser
    pk_events = guard(lambda: list(PyKdebugParser().kevents(BudgetReader(blob))))
    if pk_events != evs:
        raise Violation('listing-events', f'PyKdebugParser.kevents gives {len(pk_events)} events, KdBufParser.parse {len(evs)}')
    pk = PyKdebugParser()
    pk_logs = guard(lambda: list(pk.os_log_events(BudgetReader(blob))))
    if pk_logs != lgs:
        raise Violation('listing-logs', f'PyKdebugParser.os_log_events gives {len(pk_logs)} logs, KdBufParser.parse {len(lgs)}')
    if dict(pk.threads_pids) != exp['tp'] or dict(pk.pids_names) != exp['pn']:
        raise Violation('listing-tables', f'tables after os_log_events: {dict(pk.threads_pids)} / {dict(pk.pids_names)}')
    _, seq = files.v3_layout(spec)
    kinds = [k for k, _ in seq]
    nonempty = sum(1 for c in spec['chunks'] if c)
    cls = [f'chunks:{len(spec["chunks"])}', f'blocks:{min(len(seq), 5)}+' if len(seq) >= 5 else f'blocks:{len(seq)}']
    for k in set(kinds):
        cls.append('has:' + k)
        if kinds.count(k) > 1:
            cls.append('multi:' + k)
    if any(not c for c in spec['chunks']):
        cls.append('empty-chunk')
    if spec.get('seam_dup') and nonempty >= 2:
        cls.append('same-record-on-both-sides-of-a-chunk-seam')
    if spec['filler1_tag']:
        cls.append('threadmap-tag-in-stackshot')
    if spec.get('decoy'):
        cls.append('decoy-sections-in-stackshot')
    for name, marker in (('filler1', kmodel.STACKSHOT_END), ('filler2', kmodel.TAG_THREADMAP)):
        f = spec[name]
        if f and any(f.endswith(marker[:k]) for k in range(1, len(marker))):
            cls.append(name + '-ends-with-marker-prefix')
    if len(spec['chunks']) > 1 and any(f and any(f.endswith(kmodel.TAG_EVENTS[:k]) for k in range(1, 8))
                                       for f in spec['more_fillers'][:len(spec['chunks']) - 1]):
        cls.append('more-filler-ends-with-marker-prefix')
    if exp['logs']:
        cls.append('logs-extend-tables' if exp['tp'] != files.expected_tables(spec['tm'])[0] else 'logs')
    ctx.note(blob, nontrivial=nonempty >= 2 and len(seq) >= 1, classes=cls)


def prop_cli(ctx, case):
    """the metadata commands of the command line print the section payloads (as JSON, whatever the layout)"""
    spec = case
    blob = files.build_v3(spec)
    exp = expected(spec)
    shown = 0
    for cmd, want in (('processes', exp['processes']), ('kexts', {'Binaries': exp['kexts']}), ('images', exp['images'])):
        try:
            want_json = json.loads(json.dumps(want))
        except (TypeError, ValueError):
            continue        # payload holds plist values JSON cannot carry (dates, bytes): nothing is promised
        out, exc = guard(CLI.invoke, cmd, {}, blob)
        if exc is not None:
            raise Violation(f'cli:{cmd}:fails', f'`{cmd} DUMP` ends with {exc}; the section is {want!r}')
        try:
            got = json.loads(out)
        except ValueError:
            raise Violation(f'cli:{cmd}:not-json', f'`{cmd} DUMP` prints {out[:200]!r}')
        if got != want_json:
            raise Violation(f'cli:{cmd}', f'`{cmd} DUMP` prints {got!r}, the section holds {want_json!r}')
        shown += bool(want_json not in ({}, {'Binaries': []}))
    ctx.note(blob, nontrivial=shown > 0, classes=['cli', f'sections-shown:{shown}'])


def prop_big(ctx, case):
    """event chunks of hundreds to thousands of records (around the block sizes of a buffered reader)"""
    recs = files.many_records(case['count'], case['seed'])
    cut = case['split'] % (case['count'] + 1)
    spec = dict(case['spec'], chunks=[recs[:cut], recs[cut:]] if case['split'] % 3 else [recs])
    prop_file(ctx, spec)
    ctx.note(['big', case['count'], cut], nontrivial=True, classes=[f'records:{case["count"]}'])


def long_filler(n, seed):
    """n bytes that cannot spell the start of any marker (no 0x00, no 's')"""
    a = files.ALPHA_NO_MARKER
    out = bytearray(n)
    x = seed | 1
    for i in range(0, n, 8):
        x = (x * 6364136223846793005 + 1442695040888963407) % (1 << 64)
        for k in range(min(8, n - i)):
            out[i + k] = a[(x >> (8 * k)) % len(a)]
    return bytes(out)


def prop_straddle(ctx, case):
    """a marker that begins `j` bytes before a multiple of a typical block size (counted from where its search begins):
    a reader that scans block-wise must still find it"""
    from pykdebugparser.kd_buf_parser import KdBufParser
    from pykdebugparser.kevent import Kevent
    spec = dict(case['spec'])
    n = case['B'] * case['m'] - case['j']
    if case['which'] == 'more':
        if len(spec['chunks']) < 2:
            spec['chunks'] = [spec['chunks'][0][:1], spec['chunks'][0][1:]] if spec['chunks'] and len(spec['chunks'][0]) > 1 else spec['chunks']
        spec['more_fillers'] = [long_filler(n, case['seed'])] + list(spec['more_fillers'][1:])
    else:
        spec[case['which']] = long_filler(n, case['seed'])
        spec['decoy'] = None
    blob = files.build_v3(spec)
    parser = KdBufParser({}, {})
    items = guard(lambda: list(parser.parse(BudgetReader(blob))))
    recs = files.v3_all_records(spec)
    evs = [x for x in items if isinstance(x, Kevent)]
    if len(evs) != len(recs):
        raise Violation('event-count:straddle', f'{len(evs)} events for {len(recs)} records when {case["which"]} is {n} bytes long (marker {case["j"]} bytes before {case["m"]} x {case["B"]})')
    for ev, rec in zip(evs, recs):
        check_event(ev, rec)
    exp = expected(spec)
    if len(items) - len(evs) != len(exp['logs']) or parser.trace_codes != exp['codes'] or parser.processes != exp['processes']:
        raise Violation('sections:straddle', f'logs / metadata differ when {case["which"]} is {n} bytes long')
    ctx.note([case['which'], case['B'], case['m'], case['j'], case['seed']], nontrivial=case['j'] > 0, classes=[f'straddle:{case["which"]}:{case["B"]}'])


def prop_optimized(ctx, case):
    """a dump is read the same by an interpreter started with -OO (assert statements and docstrings stripped)"""
    spec = case
    blob = files.build_v3(spec)
    for cmd in ('kevents', 'logs', 'processes'):
        here, exc = guard(CLI.invoke, cmd, {}, blob)
        if exc is not None:
            continue
        out, err, rc = guard(CLI.invoke_subprocess, cmd, {}, blob, None, 2)
        if rc != 0 or out != here:
            raise Violation(f'optimized-interpreter:{cmd}', f'`python -OO -m pykdebugparser {cmd}` exits {rc} and prints {len(out.splitlines())} lines, `python -m ...` prints '
                                                            f'{len(here.splitlines())}: {err[-200:]}')
    ctx.note(blob, nontrivial=True, classes=['optimized-interpreter'])


prop_file = zoned(prop_file)
PROPS = {'file': prop_file, 'cli': prop_cli, 'big': prop_big, 'straddle': prop_straddle, 'optimized': prop_optimized}


def run(ctx):
    zspec = st.tuples(files.v3_spec(), st.sampled_from(HOST_ZONES), st.sampled_from([False, False, False, True])).map(lambda t: {**t[0], 'zone': t[1], 'seam_dup': t[2]})
    ctx.run_given('file', zspec, prop_file, ctx.n(300, 1500))
    bigs = st.fixed_dictionaries({'spec': files.v3_spec(max_events=0, max_n=3, log_copies=1), 'count': st.sampled_from(files.BIG_COUNTS),
                                  'seed': st.integers(0, 2 ** 32), 'split': st.integers(0, 5000)})
    ctx.run_given('big', bigs, prop_big, ctx.n(16, 120))
    small = files.v3_spec(max_events=6, max_n=2, log_copies=1)
    st_small = st.fixed_dictionaries({'spec': small, 'B': st.sampled_from([64, 512, 1024, 4096, 8192]), 'm': st.integers(1, 3), 'j': st.integers(0, 17),
                                      'which': st.sampled_from(['filler1', 'filler1', 'filler2', 'more']), 'seed': st.integers(0, 2 ** 32)})
    ctx.run_given('straddle', st_small, prop_straddle, ctx.n(60, 600))
    st_64k = st.fixed_dictionaries({'spec': small, 'B': st.just(65536), 'm': st.sampled_from([1, 1, 2]), 'j': st.integers(1, 15),
                                    'which': st.sampled_from(['filler1', 'filler1', 'filler2', 'more']), 'seed': st.integers(0, 2 ** 32)})
    ctx.run_given('straddle', st_64k, prop_straddle, ctx.n(12, 120))
    if ctx.failures:
        return          # the command line reads real files without a read budget: not on a tree that already fails
    ctx.run_given('cli', files.v3_spec(), prop_cli, ctx.n(60, 300))
    if ctx.shard == 0:
        ctx.run_given('optimized', files.v3_spec(max_events=20, max_n=4, force_logs=True), prop_optimized, ctx.n(2, 8))
