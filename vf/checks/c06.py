"""C06 — truncated dumps: parsing terminates and reports a prefix of the full result."""
import contextlib
import io

from hypothesis import strategies as st

from .. import cli as CLI, events as EV, files, kmodel, scenario as SC, strategies as S
from ..core import Violation, guard
from ..io_util import BudgetReader, ReadBudgetExceeded

ID = 'C06'
RULE = ('dumps: small version-2 and version-3 files (<= 14 records from scenario programs so that traces exist, timestamps increasing, decreasing or pairwise inverted, half of the dumps with a record whose argument words spell a section tag and a size; v3 with '
        'fillers, 1..3 chunks (the last one sometimes with 1..63 bytes of an unfinished record counted in its size), <= 4 blocks incl. logs) x cut offsets: quick = every structural boundary (sections, chunk headers, blocks, record and record-field boundaries) +-1 and 40 '
        'pseudo-random offsets; thorough = EVERY offset 0..len of every generated dump. The reader counts read calls '
        'and raises after 8*len+4096 (healthy parsers need <= ~2*len), which turns "spins at end-of-file" into a '
        'deterministic failure. Oracle per cut: iteration stops (StopIteration or an error other than the budget); '
        'the events, traces (text), formatted event lines and formatted trace lines reported before stopping are a '
        'prefix of the complete dump\'s; every trace is rendered when yielded and again after the stream ended (text and '
        'window length must agree); print_with_count(gen, c) prints exactly the first c lines for c in {0, 1, k, total, '
        'total+5, -1}; sub-check cli: the four listing commands of the command line with `-c N` / `--count N` print exactly the '
        'first N items of what they print without the option (N in {0, 1, k, total, total+5}); sub-check fresh_process: one call of every '
        'BSD/Mach/other ordinary decoder in one dump, listed by `python -m pykdebugparser traces` in fresh interpreters with different '
        'string-hash seeds: identical to the in-process listing, and `-c N` prints its first N lines. Non-trivial: the cut falls strictly inside a record, the thread map, a filler, a chunk header or '
        'a block; distinct by (file digest, offset).')
ASSUMPTIONS = ['linear reading is decided by a read-call budget of 8*len+4096 on a counting reader',
               'the first record of a dump does not begin with 0x00 (K1, see C02)',
               'for version 3 the prefix claim is on events (logs and metadata need the sections after the events)']


REC_FIELDS = [8, 32, 40, 48, 52, 56]     # field boundaries inside a 64-byte record


def stream_events(spec):
    progs = [SC.expand_program(i, ops, partition=True) for i, ops in enumerate(spec['programs'])]
    evs = SC.merge(progs, spec['schedule'])[:spec['max_events']]
    if spec.get('tagwords') is not None:
        # a record whose argument words spell a section tag followed by a plausible size (pread(fd, buf, 0x1e00, 64)): inside a
        # record they are argument words, whatever a truncated file makes a reader look for
        words = [[0x1e00, 64, 0x1e00, 128], [3, 0x1e00, 64, 0], [0x1d00, 32, 0x1e00, 64], [0x2000, 0x1e00, 128, 0]][spec['tagwords'] % 4]
        data = b''.join(x.to_bytes(8, 'little') for x in words)
        evs.insert(spec['tagwords'] % (len(evs) + 1), [SC.PROGRAM_TIDS[0], 'BSC_pread_extended_info', 0, data])
    return evs


def records_of(evs, ts_mode=0):
    """ts_mode 0: increasing timestamps; 1: decreasing; 2: every other pair of neighbours inverted (records merged from
    several cpu buffers are not sorted; the order of a dump is the order of its records)"""
    n = len(evs)

    def ts(k):
        if ts_mode == 1:
            return 1001 + 7 * (n - k)
        if ts_mode == 2:
            return 1001 + 7 * (k ^ 1 if k % 4 < 2 else k)
        return 1001 + 7 * k
    return [kmodel.ev_record((ts(k), tid, (EV.eid(code) & ~3) | q, data)) for k, (tid, code, q, data) in enumerate(evs)]


def build(spec):
    """-> (blob, structural boundaries, kind)"""
    recs = records_of(stream_events(spec), spec.get('ts_mode', 0))
    tm = [(SC.PROGRAM_TIDS[i], 100 * (i + 1), b'P%d_main' % i) for i in range(len(spec['programs']))]
    if spec['version'] == 2:
        pad = spec['pad']
        head = kmodel.v2_file(tm, 0, [])
        blob = head + bytes(pad) + b''.join(recs)
        bounds = [0, 4, 8, 0x120] + [0x120 + 32 * i for i in range(len(tm) + 1)] + [len(head) + pad + 64 * i for i in range(len(recs) + 1)]
        bounds += [len(head) + pad + 64 * i + f for i in range(len(recs)) for f in REC_FIELDS]
        return blob, bounds, 2
    v3 = dict(spec['v3'])
    cuts = sorted(c % (len(recs) + 1) for c in spec['cuts'])
    chunks, prev = [], 0
    for c in cuts:
        chunks.append(recs[prev:c])
        prev = c
    chunks.append(recs[prev:])
    if spec.get('odd_tail'):
        # the size field of the last events chunk is not a multiple of 64: some bytes of an unfinished record follow its
        # last whole record (whatever the tool makes of them, a cut inside them must still end the parse)
        chunks[-1] = chunks[-1] + [bytes([0x41 + spec['odd_tail'] % 20]) * spec['odd_tail']]
    v3['chunks'] = chunks
    v3['tm'] = [list(t) + [b''] for t in tm]
    blob = files.build_v3(v3)
    # structural boundaries: find the tags
    bounds = {0, 4, 64, len(blob)}
    for marker in (kmodel.STACKSHOT_END, kmodel.TAG_THREADMAP, kmodel.TAG_EVENTS, kmodel.TAG_MORE, kmodel.TAG_LOGS,
                   kmodel.TAG_STRINGS, kmodel.TAG_DYLD, kmodel.TAG_KEXTS, kmodel.TAG_CODES, kmodel.TAG_PROCESSES, kmodel.TAG_IMAGES):
        k = blob.find(marker)
        while k >= 0:
            bounds |= {k, k + len(marker), k + len(marker) + 8, k + len(marker) + 16}
            k = blob.find(marker, k + 1)
    for r in recs:
        k = blob.find(r)
        if k >= 0:
            bounds |= {k, k + 64} | {k + f for f in REC_FIELDS}
    return blob, sorted(b for b in bounds if b <= len(blob)), 3


def collect(make_gen, render=None):
    """iterate; returns (items, stopped_by) — a budget hit propagates as ReadBudgetExceeded"""
    items = []
    try:
        for x in make_gen():
            items.append(render(x) if render else x)
    except ReadBudgetExceeded:
        raise
    except Exception as e:  # noqa: stops with an error: allowed
        return items, type(e).__name__
    return items, None


def parser():
    from pykdebugparser.pykdebugparser import PyKdebugParser
    p = PyKdebugParser()
    p.color = False
    p.show_tid = True
    return p


def run_all(blob):
    from pykdebugparser.kevent import Kevent
    out = {}
    out['kevents'] = collect(lambda: (e for e in parser().kevents(BudgetReader(blob))))
    shown = []

    def tr():
        for t in parser().traces(BudgetReader(blob)):
            shown.append((t, str(t), len(t.ktraces)))
            yield str(t)
    out['traces'] = collect(tr)
    for t, text, n in shown:
        if str(t) != text or len(t.ktraces) != n:
            raise Violation('reported-trace-changed', f'a trace reported as {text!r} ({n} events) later reads {str(t)!r} ({len(t.ktraces)} events)')
    out['formatted_kevents'] = collect(lambda: parser().formatted_kevents(BudgetReader(blob)))
    out['formatted_traces'] = collect(lambda: parser().formatted_traces(BudgetReader(blob)))
    return out


def prop_cut(ctx, case):
    blob, bounds, version = build(case['spec'])
    full = guard(run_all, blob)
    for k, (items, err) in full.items():
        if err is not None:
            raise Violation(f'complete-dump-fails:{k}', f'the complete dump stops with {err}')
    n = len(blob)
    if case['all_offsets']:
        offsets = range(0, n + 1)
    else:
        offs = set()
        for b in bounds:
            offs |= {b - 1, b, b + 1}
        for k in range(40):
            offs.add(S.expand_words(case['seed'] + 4096, k)[0] % (n + 1))
        offsets = sorted(o for o in offs if 0 <= o <= n)
    bset = set(bounds)
    for off in offsets:
        cut = blob[:off]
        try:
            got = run_all(cut)
        except ReadBudgetExceeded as e:
            raise Violation(f'does-not-terminate:v{version}', f'dump of {n} bytes cut at {off}: {e}')
        except Violation:
            raise
        for k, (items, err) in got.items():
            ref = full[k][0]
            if items != ref[:len(items)]:
                j = next((i for i in range(min(len(items), len(ref))) if items[i] != ref[i]), min(len(items), len(ref)))
                raise Violation(f'not-a-prefix:{k}:v{version}', f'dump of {n} bytes cut at {off}: item {j} of {k} is {str(items[j])[:160]!r}; '
                                                                 f'the complete dump gives {str(ref[j])[:160] if j < len(ref) else "nothing"!r} ({len(items)} vs {len(ref)} items, stopped by {err})')
        ctx.note([blob, off], nontrivial=off not in bset and off < n, classes=[f'v{version}', 'inside' if off not in bset else 'boundary',
                                                                            'stops-with-error' if got['kevents'][1] else 'stops-normally'])


def prop_count(ctx, case):
    from pykdebugparser.__main__ import print_with_count
    blob, bounds, version = build(case['spec'])

    def printed(kind, c):
        buf = io.StringIO()
        p = parser()
        gen = {'kevents': p.formatted_kevents, 'traces': p.formatted_traces}[kind](BudgetReader(blob))
        with contextlib.redirect_stdout(buf):
            print_with_count(gen, c)
        return buf.getvalue()
    for kind in ('kevents', 'traces'):
        full = guard(printed, kind, -1)
        lines = full.split('\n')[:-1] if full else []
        ref = guard(lambda: [str(x) for x in {'kevents': parser().formatted_kevents, 'traces': parser().formatted_traces}[kind](BudgetReader(blob))])
        if '\n'.join(ref) + ('\n' if ref else '') != full:
            raise Violation(f'count:-1:{kind}', 'unlimited printing differs from the listing')
        total = len(ref)
        for c in sorted({0, 1, case['k'] % (total + 1), total, total + 5}):
            out = guard(printed, kind, c)
            exp = ''.join(x + '\n' for x in ref[:c])
            if out != exp:
                raise Violation(f'count-limit:{kind}', f'count {c} of {total}: printed {out[:200]!r}, expected the first {min(c, total)} lines')
            ctx.note([blob, kind, c], nontrivial=0 < c < total, classes=['count', kind])


def prop_cli_count(ctx, case):
    """`<listing command> -c N DUMP` prints the first N items of `<listing command> DUMP`"""
    blob, bounds, version = build(case['spec'])
    for cmd in (('kevents', 'traces', 'callstacks') if version == 2 else ('kevents', 'logs')):
        o = {'show_tid': case['show_tid'], 'color': False, 'radix': case['k']}
        items = guard(CLI.reference_items, cmd, o, blob)
        CLI.expect(cmd, o, blob, items, 'without --count everything is printed')
        total = len(items)
        for c in sorted({0, 1, case['k'] % (total + 1), total, total + 5}):
            CLI.expect(cmd, dict(o, count=c), blob, items[:c], f'--count {c} prints the first {min(c, total)} of {total} items')
            ctx.note([blob, cmd, c, case['show_tid']], nontrivial=0 < c < total, classes=['cli-count', cmd])


def prop_fresh_process(ctx, case):
    """count limiting across invocations: `traces -c N DUMP` started as a fresh interpreter (whatever string-hash seed
    it draws) prints the first N lines of what another fresh `traces DUMP` prints"""
    seed = case['seed']
    names = SC.ordinary_names()
    evs = []
    for i, n in enumerate(names):
        if (i + seed) % case['stride'] == 0:
            evs += [SC.ev(0x42, n, 1, seed + 4096 + i, 0), SC.ev(0x42, n, 2, seed + 4096 + i, 1)]
    blob = kmodel.v2_file([(0x42, 7, b'showcase')], 0, records_of(evs))
    o = {'color': False, 'show_tid': True}
    ref = guard(CLI.reference_items, 'traces', o, blob)
    outs = {}
    for hs in case['hashseeds']:
        out, err, rc = guard(CLI.invoke_subprocess, 'traces', o, blob, hs)
        if rc != 0:
            raise Violation('fresh-process:fails', f'`python -m pykdebugparser traces` (PYTHONHASHSEED={hs}) exits {rc}: {err}')
        outs[hs] = out
        if out != CLI.text_of(ref):
            gl, el = out.split('\n'), CLI.text_of(ref).split('\n')
            k = next((i for i in range(min(len(gl), len(el))) if gl[i] != el[i]), min(len(gl), len(el)))
            raise Violation('fresh-process:differs', f'a fresh interpreter with PYTHONHASHSEED={hs} prints line {k} as {gl[k:k + 1]}, this process lists {el[k:k + 1]} '
                                                     f'({len(gl) - 1} vs {len(el) - 1} lines)')
    n = len(ref) // 2
    out, err, rc = guard(CLI.invoke_subprocess, 'traces', dict(o, count=n), blob, case['hashseeds'][-1] + 1)
    if rc != 0 or out != CLI.text_of(ref[:n]):
        raise Violation('fresh-process:count', f'`traces -c {n}` in a fresh interpreter does not print the first {n} lines of the unlimited listing (exit {rc})')
    ctx.note([seed, case['stride'], case['hashseeds']], nontrivial=len(ref) >= 10, classes=['fresh-process', f'lines:{min(len(ref) // 100 * 100, 400)}+'])


PROPS = {'cut': prop_cut, 'count': prop_count, 'cli_count': prop_cli_count, 'fresh_process': prop_fresh_process}


def spec_strategy(version):
    base = {'programs': SC.programs_strategy(1, 2, 3), 'schedule': st.lists(st.integers(0, 1), max_size=20),
            'max_events': st.integers(2, 14), 'version': st.just(version), 'ts_mode': st.sampled_from([0, 0, 1, 2]),
            'tagwords': st.one_of(st.none(), st.integers(0, 7))}
    if version == 2:
        base['pad'] = st.sampled_from([0, 0, 3, 8, 64])
    else:
        base['cuts'] = st.lists(st.integers(0, 1000), max_size=2)
        base['odd_tail'] = st.sampled_from([0, 0, 0, 1, 8, 37, 63])
        base['v3'] = files.v3_spec(max_events=0, max_n=2, tids=SC.PROGRAM_TIDS[:2], records_strategy=st.just([]), log_copies=1, decoy_often=True)
    return st.fixed_dictionaries(base)


def run(ctx):
    for version in (2, 3):
        strat = st.fixed_dictionaries({'spec': spec_strategy(version), 'seed': S.u64, 'all_offsets': st.just(not ctx.quick)})
        ctx.run_given('cut', strat, prop_cut, ctx.n(10, 5))
    cstrat = st.fixed_dictionaries({'spec': spec_strategy(2), 'k': st.integers(0, 40)})
    ctx.run_given('count', cstrat, prop_count, ctx.n(60, 200))
    if ctx.failures:
        return          # the command line reads real files without a read budget: not on a tree that already fails
    for version in (2, 3):
        clis = st.fixed_dictionaries({'spec': spec_strategy(version), 'k': st.integers(0, 40), 'show_tid': st.sampled_from([None, True, False])})
        ctx.run_given('cli_count', clis, prop_cli_count, ctx.n(20, 100))
    if ctx.shard == 0:
        fresh = [{'seed': ctx.seed * 7 + r, 'stride': 1 if r == 0 else 3, 'hashseeds': [1 + 2 * r, 2 + 2 * r]} for r in range(ctx.n(1, 4))]
        ctx.run_enum('fresh_process', fresh, prop_fresh_process)
