"""C02 — a version-2 dump yields exactly its records, in order, and its thread map."""
from ..io_util import BudgetReader

from hypothesis import strategies as st

from .. import cli as CLI, files, kmodel
from ..core import Violation, guard
from .c01 import check_event

ID = 'C02'
RULE = ('cases: histories of 1..4 version-2 dumps parsed in sequence through the SAME threads_pids/pids_names dict '
        'objects (KdBufParser.parse on a new or on ONE reused KdBufParser object, PyKdebugParser.kevents, a default-constructed KdBufParser(), or alternating; '
        'some files are read twice or share their thread map with the previous one, and the tables may be edited between two parses). Each dump = header (random filler '
        'in its unused fields) + thread map of 0..40 entries (full-range tids/pids, pooled duplicates, utf-8 names '
        '<= 19 bytes, optional garbage after the NUL) + zero padding {0,1..7,8..4096, 4097..70000 (16 KiB and 64 KiB pages)} + 0..60 records '
        '(random/structured bytes; records beginning with 1..63 zero bytes and all-zero records forced in); sub-check big: dumps of '
        '255..4097 records (around the block sizes of a buffered reader: 256, 512, 1024, 2048, 4096); sub-check cli_file: a dump of 20000+ records '
        '(more than 1 MiB) read from a real file by the `kevents` command. '
        'Oracle: events == independent decoding of each record in order, nothing else; tables == plain-loop '
        'model of this file\'s map only. Non-trivial: n>=1 and m>=2; distinct by digest of the history.')
ASSUMPTIONS = ['thread names are NUL-terminated inside the 20-byte field (xnu strlcpy) and valid utf-8',
               'K1: a FIRST record that begins with 0x00 is indistinguishable from padding for the greedy zero '
               'pad reader; that class (~3% of files) is counted under excluded_known when it fails']


def parse_one(api, parser_objs, blob):
    """returns list of yielded items and the (threads_pids, pids_names) dicts"""
    from pykdebugparser.kd_buf_parser import KdBufParser
    tp, pn, pk = parser_objs
    if api == 'kdbuf':
        p = KdBufParser(tp, pn)
        items = list(p.parse(BudgetReader(blob)))
    elif api == 'kdbuf-same':
        # ONE KdBufParser object for all the files of the history (the files of a split capture read one after the other)
        if 'same' not in pk.__dict__.setdefault('_vf_scratch', {}):
            pk._vf_scratch['same'] = KdBufParser(tp, pn)
        items = list(pk._vf_scratch['same'].parse(BudgetReader(blob)))
    elif api == 'kdbuf-own':
        # a parser constructed without tables owns fresh ones: they must hold this file's map and nothing else
        p = KdBufParser()
        items = list(p.parse(BudgetReader(blob)))
        tp.clear(); tp.update(p.threads_pids)
        pn.clear(); pn.update(p.pids_names)
        other = KdBufParser()
        if other.threads_pids or other.pids_names:
            raise Violation('fresh-parser-not-empty', f'a newly constructed KdBufParser() already holds {dict(other.threads_pids)} / {dict(other.pids_names)}')
    else:
        items = list(pk.kevents(BudgetReader(blob)))
    return items


def prop_history(ctx, case):
    from pykdebugparser.pykdebugparser import PyKdebugParser
    from pykdebugparser.kevent import Kevent
    pk = PyKdebugParser()
    objs = (pk.threads_pids, pk.pids_names, pk)
    # stale content from "an earlier parse"
    if case.get('stale'):
        pk.threads_pids[0xdeadbeef] = 4242
        pk.pids_names[4242] = 'stale'
    classes = []
    for depth, (api, spec) in enumerate(zip(case['apis'], case['files'])):
        if depth and case.get('between'):
            # between two parses the owner of the tables learns something from elsewhere (a new-thread record decoded by
            # the trace layer, a log record): the next parse still leaves exactly its file's map
            objs[0][0xfeed0000 + depth] = 31337
            objs[1][31337] = 'learned_between_parses'
            for k in list(objs[0])[:1]:
                objs[0][k] = 424242
        blob = files.build_v2(spec)
        recs = spec['recs']
        known_class = bool(recs) and recs[0][0] == 0
        try:
            items = guard(parse_one, api, objs, blob)
            if len(items) != len(recs):
                raise Violation('event-count', f'{len(items)} events for {len(recs)} records (file {depth})')
            for i, (ev, rec) in enumerate(zip(items, recs)):
                if not isinstance(ev, Kevent):
                    raise Violation('foreign-item', f'item {i} is {type(ev).__name__}')
                check_event(ev, rec)
            etp, epn = files.expected_tables(spec['tm'])
            if dict(objs[0]) != etp:
                raise Violation('threads_pids', f'file {depth}: got {dict(objs[0])} expected {etp}')
            if dict(objs[1]) != epn:
                raise Violation('pids_names', f'file {depth}: got {dict(objs[1])} expected {epn}')
        except Violation as v:
            if known_class:
                raise Violation('first-record-leading-zero', v.message) from v
            raise
        classes += [f'api:{api}', 'pad0' if spec['pad'] == 0 else 'pad>0', f'depth:{depth}']
        if any(r[0] == 0 for r in recs[1:]):
            classes.append('later-record-leading-zero')
        if known_class:
            classes.append('K1-class-passed')
    # two parses opened on the same tables before the first one is consumed: after consuming both in order the tables
    # hold exactly the second file's map
    if case.get('overlap') and len(case['files']) >= 2:
        from pykdebugparser.kd_buf_parser import KdBufParser
        sa, sb = case['files'][0], case['files'][1]
        if not ((sa['recs'] and sa['recs'][0][0] == 0) or (sb['recs'] and sb['recs'][0][0] == 0)):
            tp2, pn2 = {}, {}
            p2 = KdBufParser(tp2, pn2)
            ga = guard(p2.parse, BudgetReader(files.build_v2(sa)))
            gb = guard(p2.parse, BudgetReader(files.build_v2(sb)))
            na = len(guard(lambda: list(ga)))
            nb = len(guard(lambda: list(gb)))
            etp, epn = files.expected_tables(sb['tm'])
            if (na, nb) != (len(sa['recs']), len(sb['recs'])) or dict(tp2) != etp or dict(pn2) != epn:
                raise Violation('overlapping-parses', f'two parses opened before the first was read: {na}/{nb} events, tables {dict(tp2)} / {dict(pn2)}, '
                                                      f'the second file declares {etp} / {epn}')
            classes.append('overlapping-parses')
    f0 = case['files']
    nt = any(len(s['tm']) >= 1 and len(s['recs']) >= 2 for s in f0)
    ctx.note(None, nontrivial=nt, classes=set(classes))


def prop_big(ctx, case):
    """dumps of hundreds to thousands of records (around the block sizes of a buffered reader)"""
    spec = dict(case['spec'], recs=files.many_records(case['count'], case['seed']))
    prop_history(ctx, {'apis': [case['api']], 'files': [spec], 'stale': False, 'overlap': False})
    ctx.note(['big', case['count'], case['seed']], nontrivial=True, classes=[f'records:{case["count"]}'])


def prop_cli_file(ctx, case):
    """a dump of more than a megabyte read from a real (buffered) file, as the command line does: one line per record,
    each showing its record's timestamp and argument bytes"""
    recs = files.many_records(case['count'], case['seed'])
    spec = dict(case['spec'], recs=recs)
    blob = files.build_v2(spec)
    out, exc = guard(CLI.invoke, 'kevents', {}, blob)
    lines = out.split('\n')[:-1] if out else []
    if exc is not None or len(lines) != len(recs):
        raise Violation('cli-file:event-count', f'`kevents` on a file of {len(recs)} records ({len(blob)} bytes) prints {len(lines)} lines ({exc})')
    for k, (line, rec) in enumerate(zip(lines, recs)):
        ts = int.from_bytes(rec[:8], 'little')
        if not line.startswith(str(ts) + ' ') or str(bytes(rec[8:40])) not in line:
            raise Violation('cli-file:record', f'line {k} of {len(recs)} is {line[:160]!r}; record {k} has timestamp {ts} and arguments {bytes(rec[8:40])!r}')
    ctx.note(['cli-file', case['count'], case['seed']], nontrivial=True, classes=[f'file-bytes:{len(blob) >> 20}MiB+'])


PROPS = {'history': prop_history, 'big': prop_big, 'cli_file': prop_cli_file}


def strategy():
    n = st.integers(1, 4)

    def repeat(c):
        # some histories read the same file (or a file with the same thread map) again
        fs = list(c['files'])
        for i in range(1, len(fs)):
            r = (c['repeat'] >> (2 * i)) & 3
            if r == 1:
                fs[i] = fs[i - 1]
            elif r == 2:
                fs[i] = dict(fs[i], tm=fs[i - 1]['tm'])
        return dict(c, files=fs)
    return n.flatmap(lambda k: st.fixed_dictionaries({
        'apis': st.one_of(st.lists(st.sampled_from(['kdbuf', 'pykdebug', 'kdbuf', 'pykdebug', 'kdbuf-own', 'kdbuf-same']), min_size=k, max_size=k),
                          st.just(['kdbuf-same'] * k)),
        'files': st.lists(files.v2_spec(), min_size=k, max_size=k),
        'stale': st.booleans(), 'overlap': st.booleans(), 'between': st.booleans(), 'repeat': st.integers(0, 255),
    })).map(repeat)


def run(ctx):
    ctx.run_given('history', strategy(), prop_history, ctx.n(400, 2500))
    base = ctx.seed * 104723
    big = [{'spec': {'tm': [[0x10 + j, 100 + j, b'p%d' % j, b''] for j in range(i % 3)], 'pad': [0, 8, 3, 4096][i % 4], 'is64': 1, 'tick': 0, 'fill': 0},
            'count': c, 'seed': base + i, 'api': ['kdbuf', 'pykdebug'][(i + ctx.seed) % 2]} for i, c in enumerate(files.BIG_COUNTS)]
    if ctx.shard == 0 and not ctx.failures:
        cf = [{'spec': {'tm': [[0x10 + j, 100 + j, b'p%d' % j, b''] for j in range(1 + (ctx.seed + i) % 3)], 'pad': [24, 4, 0][i % 3], 'is64': 1, 'tick': 0, 'fill': 0},
               'count': [20000, 33000, 70000][i % 3], 'seed': base + 50 + i} for i in range(ctx.n(1, 3))]
        ctx.run_enum('cli_file', cf, prop_cli_file, exhaustive_label='dumps of 20000+ records (more than 1 MiB) read from a real file by `kevents`')
    ctx.run_enum('big', big, prop_big, exhaustive_label='dumps of 255..4097 records, every count of files.BIG_COUNTS')
