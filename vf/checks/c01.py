"""C01 — every 64-byte kd_buf record decodes exactly and totally."""
from hypothesis import strategies as st

from .. import kmodel, strategies as S
from ..core import Violation, guard

ID = 'C01'
RULE = ('cases: 64-byte records = raw random bytes | structured records with boundary-biased fields, each with a '
        'random bit to flip (non-interference), plus the 1024 one-hot / one-cold records (every bit position) '
        'and every id of the bundled code table x 4 qualifiers as debug id, enumerated in every run. Oracle: independent int.from_bytes field extraction, id/qualifier algebra, '
        'rebuild of the first 52 bytes, single-bit-flip non-interference, totality. Non-trivial: the record is not a '
        'repetition of one byte value; distinct by record bytes.')
ASSUMPTIONS = ['from_kd_buf is the only decoding entry point; it is called with exactly 64 bytes (the statement\'s domain)']

FIELDS = [('timestamp', 0, 8), ('data', 8, 40), ('tid', 40, 48), ('debugid', 48, 52), ('ignored', 52, 64)]


def owner(bit):
    byte = bit // 8
    for name, a, b in FIELDS:
        if a <= byte < b:
            return name
    raise AssertionError


def as_dict(ev):
    return dict(timestamp=ev.timestamp, data=bytes(ev.data), values=tuple(ev.values), tid=ev.tid,
                debugid=ev.debugid, eventid=ev.eventid, func_qualifier=ev.func_qualifier)


def check_event(ev, rec):
    """shared with C02/C03/C06: the event equals the independent decoding of its record"""
    exp = kmodel.decode_independent(rec)
    got = as_dict(ev)
    for k in exp:
        if got[k] != exp[k] or type(got[k]) is not type(exp[k]):
            raise Violation(f'field-mismatch:{k}', f'{k}: got {got[k]!r} expected {exp[k]!r} rec={bytes(rec).hex()}')
    return got


def prop_record(ctx, case):
    from pykdebugparser.kevent import from_kd_buf
    rec = case['rec']
    ev = guard(from_kd_buf, rec)
    got = check_event(ev, rec)
    if len(ev) != 7 or ev._fields != ('timestamp', 'data', 'values', 'tid', 'debugid', 'eventid', 'func_qualifier'):
        raise Violation('shape', f'event fields {ev._fields}')
    q, eid, dbg = got['func_qualifier'], got['eventid'], got['debugid']
    if not (0 <= q <= 3) or eid & 3 or eid | q != dbg or eid + q != dbg:
        raise Violation('id-qualifier-algebra', f'debugid={dbg:#x} eventid={eid:#x} qual={q}')
    rebuilt = (got['timestamp'].to_bytes(8, 'little') + b''.join(v.to_bytes(8, 'little') for v in got['values'])
               + got['tid'].to_bytes(8, 'little') + (eid | q).to_bytes(4, 'little'))
    if rebuilt != rec[:52] or got['data'] != rec[8:40]:
        raise Violation('rebuild', f'rebuilt {rebuilt.hex()} from {rec.hex()}')
    # non-interference: flip one bit, only the owning field may change
    bit = case.get('flip')
    cls = ['flip:' + owner(bit)] if bit is not None else []
    if bit is not None:
        rec2 = bytearray(rec)
        rec2[bit // 8] ^= 1 << (bit % 8)
        got2 = as_dict(guard(from_kd_buf, bytes(rec2)))
        own = owner(bit)
        allowed = {'timestamp': {'timestamp'}, 'data': {'data', 'values'}, 'tid': {'tid'},
                   'debugid': {'debugid', 'eventid', 'func_qualifier'}, 'ignored': set()}[own]
        changed = {k for k in got if got[k] != got2[k]}
        if not changed <= allowed:
            raise Violation('interference', f'bit {bit} ({own}) changed {sorted(changed)} rec={rec.hex()}')
        if own != 'ignored' and not changed:
            raise Violation('bit-lost', f'bit {bit} ({own}) changed nothing rec={rec.hex()}')
        if own == 'data':
            w = (bit // 8 - 8) // 8
            diff = [i for i in range(4) if got['values'][i] != got2['values'][i]]
            if diff != [w] or got['values'][w] ^ got2['values'][w] != 1 << (bit - 64 - 64 * w):
                raise Violation('interference', f'bit {bit} changed words {diff}')
        if own == 'debugid':
            b = bit - 48 * 8
            if b < 2 and (got['eventid'] != got2['eventid'] or got['func_qualifier'] ^ got2['func_qualifier'] != 1 << b):
                raise Violation('interference', f'qualifier bit {b} leaked')
            if b >= 2 and (got['func_qualifier'] != got2['func_qualifier'] or got['eventid'] ^ got2['eventid'] != 1 << b):
                raise Violation('interference', f'id bit {b} leaked')
    ctx.note(rec, nontrivial=len(set(rec)) > 1, classes=cls + [f'qual:{q}'])


PROPS = {'record': prop_record}


def one_hot_cold():
    for bit in range(512):
        for base in (0x00, 0xff):
            rec = bytearray([base]) * 64
            rec[bit // 8] ^= 1 << (bit % 8)
            yield {'rec': bytes(rec), 'flip': (bit * 7 + 13) % 512}
    for base in (0x00, 0xff, 0x55, 0xaa):
        for bit in range(0, 512):
            yield {'rec': bytes([base]) * 64, 'flip': bit}


def table_ids():
    """records whose debug id is an id of the bundled code table (all four qualifiers; ids listed with low bits too)"""
    from ..core import REPO_ROOT
    by_id, _ = kmodel.code_table(REPO_ROOT)
    k = 0
    for ident in sorted(by_id):
        for q in range(4):
            k += 1
            dbg = (ident & ~3) | q
            yield {'rec': kmodel.record(0x1122334455667788 + k, bytes(range(32)), 0x99 + k, dbg, cpu=k % 3, unused=k % 2),
                   'flip': 384 + (k % 32)}
        if ident & 3:
            yield {'rec': kmodel.record(7, bytes(32), 1, ident), 'flip': 390}


def run(ctx):
    strat = st.fixed_dictionaries({'rec': S.record64(), 'flip': st.integers(0, 511)})
    ctx.run_enum('record', one_hot_cold(), prop_record, exhaustive_label='one-hot/one-cold records and every bit flip of 4 constant records')
    ctx.run_enum('record', table_ids(), prop_record, exhaustive_label='every id of the bundled code table x 4 qualifiers as debug id')
    ctx.run_given('record', strat, prop_record, ctx.n(5000, 50000))
