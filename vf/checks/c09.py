"""C09 — syscall arguments are rendered from the matching START argument, in order."""
import re

from hypothesis import strategies as st

from .. import domains, events as EV, scenario as SC, strategies as S, textparse as TP
from ..core import Violation, guard

ID = 'C09'
RULE = ('every BSD syscall / Mach trap decoder (all BSC_* and MSC_* names, all of them in every run) x START tuples '
        'projected onto the decoder\'s domain with pairwise distinct words whose renderings are pairwise distinct, '
        'free END tuples, 0..2 lookups with comma/quote-free paths. Oracle: (2) a numeric literal shown at position k '
        'is a full-width rendering of START word k ({unsigned, signed} x {dec, hex}, or a boolean; low 32 bits only for the seconds of semaphore_timedwait) and of '
        'no other word of the START or END record; (1) changing only START word k never changes the call name, the '
        'arity or a numeric parameter at another position; (3) an enum-named parameter is injective over its domain; '
        '(4) the call part is unchanged when only the END record, the thread id, the timestamps or unrelated nested '
        'records (among them the undecoded names of the call\'s own family, e.g. *_extended_info) change, when a stray END precedes the window, when an earlier unterminated START of the same call exists, and when another thread listed in the '
        'thread map enters the same call meanwhile, and when the window is requested as a dump through PyKdebugParser.traces under class / subclass '
        'filter sets that select the call (path-taking calls); '
        '(5) sentinel: with one START word set to a value that is special somewhere (AT_FDCWD 0xfffffffe, -1, -2, 0, 1, INT_MAX, 2^31, 2^32, ...) '
        'every numeric parameter still shows its own word (a word that fits 32 bits may be shown as a signed int) and no other parameter moves; '
        '(6) rendering a trace twice gives the same text; after that every list / dict attribute of the trace is edited in place (the receiver owns them), so a decoder '
        'that hands one list to several traces is seen by the next decoding. Non-trivial: four pairwise distinct non-zero START words; distinct by (decoder, START tuple).')
ASSUMPTIONS = ['the call part is the text up to the parenthesis that closes name(',
               'parameters that are not decimal/hex literals (names, quoted paths, flag lists) are checked by C08/C11',
               'flag-list parameters may appear or disappear with another flag word (open mode shown only with O_CREAT): '
               'position sensitivity is asserted for numeric literals only']

NUM = re.compile(r'^-?(0x[0-9a-fA-F]+|[0-9]+)$')


def renderings(a):
    a &= (1 << 64) - 1
    vals = {a, a - (1 << 64) if a >> 63 else a, a & 0xffffffff}
    lo = a & 0xffffffff
    vals.add(lo - (1 << 32) if lo >> 31 else lo)
    out = set()
    for v in vals:
        out.add(str(v))
        out.add(hex(v))
    return out


def distinct_words(name, seed):
    """four START words, in-domain, pairwise distinct with pairwise disjoint renderings; END words disjoint too"""
    for attempt in range(50):
        ws = list(S.expand_words(seed + attempt * 7919 + 4096, 0))
        # spread magnitudes so that low-32 renderings differ too
        data = domains.project(name, 1, ws)
        a = [int.from_bytes(data[8 * i:8 * i + 8], 'little') for i in range(4)]
        we = list(S.expand_words(seed + attempt * 104729 + 8192, 1))
        de = domains.project(name, 2, we)
        e = [int.from_bytes(de[8 * i:8 * i + 8], 'little') for i in range(4)]
        rs = [renderings(x) for x in a + e]
        ok = all(rs[i].isdisjoint(rs[j]) for i in range(8) for j in range(i + 1, 8))
        if ok:
            return a, e
    return None


def render(name, a, e, lookups=(), tid=0x33, ts0=1000, nested=(), stray_end=False, stale_start=None, other_thread=None, tables=None, ts_rev=False):
    evs = [EV.E(tid, name, 2, args=[e[0], e[3], e[2], e[1]])] if stray_end else []
    if stale_start is not None:      # an earlier START of the same call that never got its END (lost, or the call never returns)
        evs.append(EV.E(tid, name, 1, args=stale_start))
    evs.append(EV.E(tid, name, 1, args=a))
    if other_thread is not None:     # another thread enters the same call while this one is inside it
        evs.append(EV.E(0x55, name, 1, args=other_thread))
    for i, p in enumerate(lookups):
        evs += EV.lookup_events(tid, 50 + i, p)
    evs += list(nested)
    evs.append(EV.E(tid, name, 2, args=e))
    # with another thread in play the pairing object is built on a thread map that already knows both threads (a second
    # request on one PyKdebugParser, or a dump whose thread map lists them)
    parser = EV.new_traces_parser() if other_thread is None else EV.new_traces_parser(threads_pids={tid: 10, 0x55: 10, 0x56: 11}, pids_names={10: 'a', 11: 'b'})
    if tables is not None:       # the process tables already know some processes (a thread map, earlier records)
        parser = EV.new_traces_parser(threads_pids=dict(tables[0]), pids_names=dict(tables[1]))
    # ts_rev: the records carry DEcreasing timestamps (merged per-CPU buffers with skewed clocks); the properties speak of
    # stream order, never of timestamp order
    ts_list = [ts0 + 7 * (len(evs) - i) for i in range(len(evs))] if ts_rev else None
    out = [t for t in parser.feed_generator(EV.realize(evs, ts0=ts0, ts_list=ts_list)) if t.ktraces[0].tid == tid and
           t.ktraces[0].eventid == EV.eid(name)]
    if len(out) != 1 or out[0].ktraces[0].func_qualifier != 1 or out[0].ktraces[-1].func_qualifier != 2:
        raise Violation(f'call-count:{name}', f'{name}: {len(out)} traces for one START..END window (stray END before it: {stray_end})')
    return text_of(name, out[0])


def text_of(name, trace):
    """the text of a trace is a function of its records: rendering it twice gives the same text"""
    first, second = str(trace), str(trace)
    if first != second:
        raise Violation(f'render-not-repeatable:{name}', f'{name}: rendered as {first!r}, then the same trace object as {second!r}')
    scribble(trace)
    return first


def scribble(trace):
    """the receiver of a trace may do what it likes with the lists and dicts the trace carries (sort them, strip a flag
    it does not care about, append a note): every trace is edited in place after its text was taken, so that a decoder
    which hands the SAME list to several traces (a cache, a precomputed table) shows up in the next decoding"""
    import dataclasses
    if not dataclasses.is_dataclass(trace):
        return
    for f in dataclasses.fields(trace):
        if f.name == 'ktraces':
            continue
        v = getattr(trace, f.name, None)
        try:
            if isinstance(v, list):
                del v[:]
                v.append('edited_by_the_receiver')
            elif isinstance(v, (dict, set)):
                v.clear()
        except Exception:  # noqa: an immutable or odd container cannot be edited, which is fine
            pass


# the only decoder that (legitimately) shows the low 32 bits of a START word: the seconds of a mach_timespec
LOW32_OK = {('MSC_semaphore_timedwait_trap', 1)}


def full_renderings(a):
    a &= (1 << 64) - 1
    s = a - (1 << 64) if a >> 63 else a
    out = {str(a), hex(a), str(s), hex(s)}
    if 1 << 31 <= a < 1 << 32:
        out |= {str(a - (1 << 32)), hex(a - (1 << 32))}      # the signed form of a word that is a 32-bit int (AT_FDCWD = -2)
    return out


def check_literals(name, a, e, params, txt, only=None):
    for k, p in enumerate(params):
        p0 = TP.strip_comment(p)
        if not NUM.match(p0) or (only is not None and k not in only):
            continue
        own = (renderings(a[k]) if (name, k) in LOW32_OK else full_renderings(a[k])) if k < 4 else set()
        others = {j: renderings(x) for j, x in enumerate(a + e) if j != k}
        hit = [j for j, r in others.items() if p0 in r]
        if p0 not in own:
            src = f'START word {hit[0]}' if hit and hit[0] < 4 else (f'END word {hit[0] - 4}' if hit else 'no word of the window')
            raise Violation(f'wrong-argument:{name}', f'{name}: parameter {k} shows {p0}, which is {src}, not START word {k}={a[k] if k < 4 else None}; text={txt!r} START={a} END={e}')


def prop_decoder(ctx, case):
    name, seed, nlook = case['name'], case['seed'], case['lookups']
    dw = distinct_words(name, seed)
    if dw is None:
        ctx.notes.append(f'no distinct tuple for {name}')
        return
    a, e = dw
    lookups = [b'/lk%d/%s' % (i, domains.ascii_text((seed, i, 3, 4), 30).replace(b'.', b'_')) for i in range(nlook)]
    txt = guard(render, name, a, e, lookups)
    sc = TP.split_call(txt)
    if sc is None:
        raise Violation('call-shape', f'{name}: {txt!r} is not name(p0, ...)')
    cname, params, rest = sc
    # (2) literal membership
    check_literals(name, a, e, params, txt)
    other = distinct_words(name, seed + 777)
    # (2b) a parameter rendered as a boolean is the truth value of START word k (not of another word or record)
    for k, p in enumerate(params[:4]):
        if p.lower() in ('true', 'false'):
            for val in (0, 1, 2 ** 40):
                b = list(a)
                b[k] = val
                db = domains.project(name, 1, b)
                b = [int.from_bytes(db[8 * i:8 * i + 8], 'little') for i in range(4)]
                eb = [x if x else 7 for x in e]
                eb[k] = 0 if b[k] else 5
                pb = TP.split_call(guard(render, name, b, eb, lookups))[1]
                if k < len(pb) and pb[k].lower() in ('true', 'false') and pb[k].lower() != str(bool(b[k])).lower():
                    raise Violation(f'wrong-boolean:{name}', f'{name}: parameter {k} shows {pb[k]} for START word {k} = {b[k]} (END word {k} = {eb[k]})')
    # (4a) another parser object saw a START of this call on this thread id and never its END (a dump that ends mid-call)
    if other is not None:
        dangling = EV.new_traces_parser()
        guard(lambda: list(dangling.feed_generator(EV.realize([EV.E(0x44, name, 1, args=other[0])]))))
    # (4) purity: END, tid, timestamps, unrelated nested records
    e2 = list(S.expand_words(seed + 99, 3))
    de = domains.project(name, 2, e2)
    e2 = [int.from_bytes(de[8 * i:8 * i + 8], 'little') for i in range(4)]
    nested = [SC.junk(0x44, seed, 1), SC.junk(0x44, seed, 2)] + [SC.ev(0x44, n, (seed + i) % 4 if (seed + i) % 4 != 2 else 0, seed, 3 + i) for i, n in enumerate(EV.family_lookalikes(name))]
    txt2 = guard(render, name, a, e2, lookups, tid=0x44, ts0=999999, nested=nested, stray_end=True, ts_rev=bool(seed & 64))
    sc2 = TP.split_call(txt2)
    if sc2 is None or (sc2[0], sc2[1]) != (cname, params):
        raise Violation(f'call-part-impure:{name}', f'{name}: call part changed with END/tid/timestamps/nested records: {txt!r} vs {txt2!r}')
    # (4b) the matching START is the most recent one: an earlier unterminated START of the same call changes nothing
    if other is not None:
        txt4 = guard(render, name, a, e, lookups, tid=0x44, stale_start=other[0])
        sc4 = TP.split_call(txt4)
        if sc4 is None or (sc4[0], sc4[1]) != (cname, params):
            raise Violation(f'stale-start-used:{name}', f'{name}: with an earlier unterminated START {other[0]} the call renders {txt4!r} instead of {txt!r}')
    # (4c) another thread of a known process enters the same call meanwhile: this thread's call still shows its own START
    if other is not None:
        txt6 = guard(render, name, a, e, lookups, other_thread=other[0])
        sc6 = TP.split_call(txt6)
        if sc6 is None or (sc6[0], sc6[1]) != (cname, params):
            raise Violation(f'other-thread-start-used:{name}', f'{name}: while another thread (both listed in the thread map) is inside the same call with START {other[0]}, '
                                                              f'this call renders {txt6!r} instead of {txt!r}')
    # (4d) the same window as a dump through PyKdebugParser.traces under filter sets that select this call: the call part
    # does not depend on which OTHER classes the caller asked for
    if nlook and name.startswith('BSC_') and '"' in txt and seed % 2 == 0:
        from pykdebugparser.pykdebugparser import PyKdebugParser
        from ..io_util import BudgetReader
        from .. import kmodel
        evs = [EV.E(0x33, name, 1, args=a)]
        for i, p_ in enumerate(lookups):
            evs += EV.lookup_events(0x33, 50 + i, p_)
        evs.append(EV.E(0x33, name, 2, args=e))
        blob = kmodel.v2_file([(0x33, 9, b'p')], 0, [kmodel.ev_record((1001 + 7 * k, t, (EV.eid(c) & ~3) | q, d)) for k, (t, c, q, d) in enumerate(evs)])
        sub = EV.eid(name) >> 16
        for fc, fs in (([], []), ([4], []), ([], [sub]), ([1], [sub]), ([1, 0x25], [sub, 0x0701]), ([4, 7], []), ([3, 4], []))[seed // 2 % 2::2]:
            pk = PyKdebugParser()
            pk.filter_class, pk.filter_subclass = list(fc), list(fs)
            got = [str(t) for t in guard(lambda: list(pk.traces(BudgetReader(blob)))) if t.ktraces[0].eventid == EV.eid(name)]
            sc7 = TP.split_call(got[0]) if len(got) == 1 else None
            if sc7 is None or (sc7[0], sc7[1]) != (cname, params):
                raise Violation(f'call-part-depends-on-filters:{name}', f'{name}: requested with class filter {fc} and subclass filter {fs} the call renders {got}, '
                                                                        f'the pairing layer alone renders {txt!r}')
    # (1) position sensitivity
    for k in range(4):
        b = list(a)
        alt = list(S.expand_words(seed + 1000 + k, 5))
        d2 = domains.project(name, 1, [alt[k] if i == k else a[i] for i in range(4)])
        b = [int.from_bytes(d2[8 * i:8 * i + 8], 'little') for i in range(4)]
        if b == a or any(b[i] != a[i] for i in range(4) if i != k):
            continue      # projection coupled two slots (socket options): not a single-word change
        txt3 = guard(render, name, b, e, lookups)
        sc3 = TP.split_call(txt3)
        if sc3 is None or sc3[0] != cname:
            raise Violation('name-changed', f'{name}: changing START word {k}: {txt!r} -> {txt3!r}')
        p3 = sc3[1]
        numeric_positions = [i for i, p in enumerate(params) if NUM.match(TP.strip_comment(p)) and i != k]
        for i in numeric_positions:
            if i >= len(p3) or TP.strip_comment(p3[i]) != TP.strip_comment(params[i]):
                raise Violation(f'position-leak:{name}', f'{name}: changing START word {k} changed parameter {i}: {txt!r} -> {txt3!r}')
    # (3) injectivity of enum-named parameters
    for k, vals in domains.START.get(name, {}).items():
        if k < len(params):
            seen = {}
            for v in vals:
                b = list(a)
                b[k] = v
                tb = guard(render, name, b, e, lookups)
                pb = TP.split_call(tb)[1]
                if all(renderings(b[i]).isdisjoint(renderings(b[j])) for i in range(4) for j in range(i + 1, 4)) and \
                        all(renderings(b[k]).isdisjoint(renderings(x)) for x in e):
                    check_literals(name, b, e, pb, tb)
                p = pb[k]
                if re.match(r'^[A-Za-z_][A-Za-z0-9_]*$', p) and p in seen and (seen[p] & 0xffffffff) != (v & 0xffffffff):
                    raise Violation('enum-not-injective', f'{name}: parameter {k} shows {p} for both {seen[p]} and {v}')
                seen[p] = v
    cls = ['bsd' if name.startswith('BSC_') else 'mach', f'lookups:{nlook}']
    if case.get('long_window'):
        # a call interrupted hundreds of times (or a START left open for a long while) still renders from its own START
        many = [SC.junk(0x33, seed + j, j % 7) for j in range(case['long_window'])]
        txt5 = guard(render, name, a, e, lookups, nested=many)
        sc5 = TP.split_call(txt5)
        if sc5 is None or (sc5[0], sc5[1]) != (cname, params):
            raise Violation(f'long-window:{name}', f'{name}: with {len(many)} nested records the call renders {txt5!r} instead of {txt!r}')
        cls.append('long-window')
    ctx.note([name, a], nontrivial=all(a) and len(set(a)) == 4, classes=cls)


SENTINELS = [0xfffffffe, 0xffffffff, 0xfffffffffffffffe, 0xffffffffffffffff, 0, 1, 0x7fffffff, 0x80000000, 0x100000000, 0xffffff9c, 2, 3]


def prop_sentinel(ctx, case):
    """one START word holds a value that is special somewhere (AT_FDCWD, -1, 0, INT_MAX, ...): every numeric parameter
    still shows its own START word, and the other parameters do not move"""
    name, seed, slot, value = case['name'], case['seed'], case['slot'], case['value']
    dw = distinct_words(name, seed)
    if dw is None:
        return
    a, e = dw
    b = list(a)
    b[slot] = value
    db = domains.project(name, 1, b)
    if [int.from_bytes(db[8 * i:8 * i + 8], 'little') for i in range(4)] != b:
        return        # the slot is enum-valued for this decoder: the value is outside its domain
    if any(not renderings(value).isdisjoint(renderings(x)) for j, x in enumerate(a + e) if j != slot):
        return
    base = TP.split_call(guard(render, name, a, e))
    txt = guard(render, name, b, e)
    sc = TP.split_call(txt)
    if sc is None or base is None or sc[0] != base[0]:
        raise Violation(f'call-shape:{name}', f'{name}: START {b} renders {txt!r}')
    # positions that show a plain number for ordinary words (a flag list with no declared bit set also reads "0")
    plain = {i for i, p in enumerate(base[1]) if NUM.match(TP.strip_comment(p))}
    check_literals(name, b, e, sc[1], txt, only=plain)
    for i, p in enumerate(base[1]):
        if i != slot and NUM.match(TP.strip_comment(p)) and (i >= len(sc[1]) or TP.strip_comment(sc[1][i]) != TP.strip_comment(p)):
            raise Violation(f'position-leak:{name}', f'{name}: START word {slot} = {value:#x} changed parameter {i}: {base[1]} -> {sc[1]}')
    ctx.note([name, slot, value], nontrivial=True, classes=['sentinel:%#x' % value])


class fresh_package:
    """a second, freshly imported copy of the package under test (its module-level state - memo tables, caches - is that of
    a new interpreter); the copy in use is put back on exit"""
    def __enter__(self):
        import sys
        self.saved = {k: v for k, v in sys.modules.items() if k == 'pykdebugparser' or k.startswith('pykdebugparser.')}
        for k in self.saved:
            del sys.modules[k]
        return self

    def __exit__(self, *exc):
        import sys
        for k in [k for k in sys.modules if k == 'pykdebugparser' or k.startswith('pykdebugparser.')]:
            del sys.modules[k]
        sys.modules.update(self.saved)
        return False


def prop_history(ctx, case):
    """the call part is a function of the START arguments: a call rendered after other calls of the same decoder (same
    words except for one field of one word) reads as it does in a fresh interpreter that renders it alone"""
    name, seed, slot, mask = case['name'], case['seed'], case['slot'], case['mask']
    dw = distinct_words(name, seed)
    if dw is None:
        return
    a, e = dw
    dw2 = distinct_words(name, seed + 99991)
    if dw2 is None:
        return
    b = list(a)
    b[slot] = (a[slot] & mask) | (dw2[0][slot] & ~mask)       # the `mask` bits of the first call, the rest from another in-domain word
    db = domains.project(name, 1, b)
    # (an ioctl request is a product of independent fields - direction, length, group, number: any mix is in the domain)
    if [int.from_bytes(db[8 * i:8 * i + 8], 'little') for i in range(4)] != b and not (name == 'BSC_ioctl' and slot == 1 and mask in (0xffff, 0xff, 0xff00, 0x1fffffff)):
        return
    first = guard(render, name, a, e)
    second = guard(render, name, b, e)
    with fresh_package():
        alone = guard(render, name, b, e)
    if second != alone:
        raise Violation(f'history-dependent:{name}', f'{name}: START {b} rendered after START {a} reads {second!r}; the same call rendered alone '
                                                     f'in a fresh copy of the package reads {alone!r}')
    ctx.note([name, slot, mask], nontrivial=first != second, classes=['history', 'history:' + name if name == 'BSC_ioctl' else 'history:other'])


PROPS = {'decoder': prop_decoder, 'sentinel': prop_sentinel, 'history': prop_history}


def names():
    dec = EV.decodable_names()
    byname = EV.by_name()
    return [n for n in dec['bsd'] + dec['mach'] if (n.startswith('BSC_') or n.startswith('MSC_')) and n in byname]


def run(ctx):
    base = ctx.seed * 15485863
    cases = [{'name': n, 'seed': base + 13 * i + 1000003 * r, 'lookups': (i + r) % 3,
              'long_window': [300, 1000, 260, 520][(i + r) % 4] if (i + 7 * r + ctx.seed) % 53 == 0 else 0}
             for r in range(ctx.n(20, 500)) for i, n in enumerate(names())]
    ctx.run_enum('decoder', cases, prop_decoder, exhaustive_label='every BSC_/MSC_ decoder name (tuples sampled)')
    # one call per run interrupted tens of thousands of times (and once per size constant found in the package source)
    from .. import dictionary as DI0
    sizes = sorted({70000} | {c + c // 16 + 8 for c in DI0.size_constants() if 1000 < c <= 300000})
    if ctx.shard == 0:
        huge = [{'name': ['BSC_read', 'BSC_open', 'BSC_write'][k % 3], 'seed': base + 77 + k, 'lookups': k % 2, 'long_window': n} for k, n in enumerate(sizes)]
        ctx.run_enum('decoder', huge, prop_decoder, exhaustive_label='one call holding 70000 nested records (+ one per size constant of the source)')
    ns = len(SENTINELS)
    sent = [{'name': n, 'seed': base + 17 * i + r, 'slot': slot, 'value': SENTINELS[r] if r < 2 else SENTINELS[2 + (i + slot + r + ctx.seed) % (ns - 2)]}
            for r in range(ctx.n(3, 2 * ns)) for i, n in enumerate(names()) for slot in range(4)]
    # ... plus the integer constants each decoder can reach in its own code (vf/dictionary.py)
    from pykdebugparser.trace_handlers import bsd, mach
    from .. import dictionary as DI
    magic = {**DI.magic_table(mach.handlers), **DI.magic_table(bsd.handlers)}
    sent += [{'name': n, 'seed': base + 19 * i + j, 'slot': slot, 'value': v} for i, n in enumerate(names()) for j, v in enumerate(magic.get(n, [])) for slot in range(4)]
    ctx.run_enum('sentinel', sent, prop_sentinel, exhaustive_label='every decoder x every START slot x special values (quick: AT_FDCWD, 0xffffffff and one of the ten others per slot, rotating with the seed)')
    strat = st.fixed_dictionaries({'name': st.sampled_from(names()), 'seed': st.integers(0, 2 ** 62), 'lookups': st.integers(0, 2)})
    ctx.run_given('decoder', strat, prop_decoder, ctx.n(500, 10000))
    # history: one field of one START word changed between two calls of one decoder, second call compared with a fresh copy of
    # the package (every mask for ioctl's request word in each run; other decoders rotate with the seed)
    masks = [0xffff, 0xff, 0xff00, 0x1fffffff, 0xffffffff, 0xffffffff00000000, 0xffff0000, 0xfff, 1, 1 << 63]
    hist = [{'name': 'BSC_ioctl', 'seed': base + 5 * k, 'slot': 1, 'mask': m} for k, m in enumerate(masks[:4] * 2)]
    ns_ = names()
    hist += [{'name': ns_[(base + 31 * k) % len(ns_)], 'seed': base + 7 * k, 'slot': k % 4, 'mask': masks[k % len(masks)]} for k in range(ctx.n(24, 400))]
    ctx.run_enum('history', hist, prop_history, exhaustive_label=None)
