"""C13 — trace filters commute with decoding and leave no residue in the parser."""
import copy

from hypothesis import strategies as st

from .. import cli as CLI, events as EV, files, kmodel, scenario as SC, strategies as S
from ..core import Violation, guard
from ..io_util import BudgetReader

ID = 'C13'
RULE = ('histories on ONE PyKdebugParser object: 2..8 steps, each = (filter settings: tid, process, class list, '
        'BSD-subclass list, as list or tuple, assigned or edited in place) + a request (a quarter of them abandoned after the first result) (traces, formatted_traces, callstacks, kevents) on one of 2 '
        'generated version-2 dumps (scenario programs of 2..3 threads with a thread map; "static" dumps carry no '
        'map-updating records and are used with every filter, "dynamic" dumps carry new-thread/exec/terminate/sampler '
        'records and are used with the process filter alone). Oracle per request: traces == [t for t in unfiltered run '
        'on a FRESH parser if pred(t)] (pred: tid equality, class/subclass membership of the trace\'s first event id, '
        'process name or pid shown for the emitting thread at emission time), same order, identical text; callstacks '
        '== callstacks of a fresh parser with the same settings; kevents == C12 predicate; after every request the '
        'four filter attributes still hold what the history last set; after the history an unfiltered request on every dump '
        'equals the baseline, and a canonical dump decoded at process start reads the same from a fresh parser before and '
        'after every history (state kept outside the objects); callstack_history: 2..4 callstack requests over one or two '
        'dumps on one object == fresh parser each time; v3: the same streams in a version-3 container with log blocks, filtered request == predicate; '
        'split_lookup: records of other classes between the chunk records of one lookup, same call text unfiltered / class 4 / BSD subclass; huge_window: an open() holding 18000+ foreign records before its lookup reads the same filtered and unfiltered; cli: `traces --tid --process -cf -sf` prints the lines of the unfiltered '
        'command at the positions the predicate selects, `callstacks --tid --process` == the library listing with those filters. Non-trivial: a class or subclass filter is active '
        'and the same request occurs at least twice in the history; distinct by history digest.')
ASSUMPTIONS = ['subclass filters are BSD subclasses only (statement); callstack requests are compared for repeatability, '
               'not against the unfiltered run (dropping image announcements legitimately changes attribution)',
               'process filter values are names/pids the dump declares, or an absent name']

MAP_UPDATERS = {'TRACE_DATA_NEWTHREAD', 'TRACE_DATA_EXEC', 'TRACE_STRING_NEWTHREAD', 'TRACE_STRING_EXEC',
                'TRACE_DATA_THREAD_TERMINATE_PID', 'PERF_THD_Data'}
BSD_SUBCLASSES = [0x040c, 0x040c, 0x040e, 0x0401]
CLASSES = [1, 3, 4, 4, 7, 0x1f, 0x1f, 0x25, 0x35, 0x42]


def build_file(spec):
    progs = []
    for i, ops in enumerate(spec['programs']):
        p = SC.expand_program(i, ops, partition=True)
        if not spec['dynamic']:
            p = [e for e in p if e[1] not in MAP_UPDATERS]
        progs.append(p)
    evs = SC.merge(progs, spec['schedule'])
    tm = [(SC.PROGRAM_TIDS[i], 100 * (i + 1), b'P%d_main' % i) for i in range(len(progs))]
    if spec.get('numeric_names'):
        # a process may be called "200" (while another process HAS pid 200): a process filter matches names and pids alike
        tm = [(t, p, b'%d' % (100 * ((i + 1) % len(progs) + 1))) for i, (t, p, _) in enumerate(tm)]
    if spec['unmapped_last'] and len(tm) > 1:
        tm = tm[:-1]
    if spec.get('no_map'):
        tm = []
    recs = [kmodel.ev_record((1001 + 7 * k, tid, (EV.eid(code) & ~3) | q, data)) for k, (tid, code, q, data) in enumerate(evs)]
    return kmodel.v2_file(tm, 0, recs), evs, tm


def fresh():
    from pykdebugparser.pykdebugparser import PyKdebugParser
    p = PyKdebugParser()
    p.color = False
    p.show_timestamp = False
    p.show_tid = True
    return p


def baseline(blob):
    """unfiltered run on fresh parsers: list of dict(ts, tid, eventid, text, proc, line)"""
    objs = list(fresh().traces(BudgetReader(blob)))
    lines = list(fresh().formatted_traces(BudgetReader(blob)))
    noproc = fresh()
    noproc.show_process = False
    lines_noproc = list(noproc.formatted_traces(BudgetReader(blob)))
    if len(objs) != len(lines) or len(lines) != len(lines_noproc):
        raise Violation('baseline', 'traces() and formatted_traces() disagree on the unfiltered run')
    out = []
    for t, line, bare in zip(objs, lines, lines_noproc):
        e = t.ktraces[0]
        text = str(t)
        # the process column is whatever the line gains with show_process (no assumption on column widths)
        head = bare[:len(bare) - len(text)] if bare.endswith(text) else ''
        proc = line[len(head):len(line) - len(text)].strip() if line.endswith(text) and line.startswith(head) else '?'
        out.append({'ts': e.timestamp, 'tid': e.tid, 'eventid': e.eventid, 'text': text, 'proc': proc, 'line': line})
    return out


def apply_cfg(p, cfg):
    p.filter_tid = cfg['tid']
    p.filter_process = cfg['process']
    if cfg.get('in_place') and isinstance(p.filter_class, list) and isinstance(p.filter_subclass, list):
        # the caller edits the lists the object already holds instead of assigning new ones
        p.filter_class[:] = cfg['classes']
        del p.filter_subclass[:]
        p.filter_subclass.extend(cfg['subclasses'])
        return
    p.filter_class = tuple(cfg['classes']) if cfg['as_tuple'] else list(cfg['classes'])
    p.filter_subclass = tuple(cfg['subclasses']) if cfg['as_tuple'] else list(cfg['subclasses'])


def pred(b, cfg):
    if cfg['tid'] is not None and b['tid'] != cfg['tid']:
        return False
    if cfg['classes'] or cfg['subclasses']:
        if not ((b['eventid'] >> 24) in cfg['classes'] or (b['eventid'] >> 16) in cfg['subclasses']):
            return False
    if cfg['process'] is not None:
        proc = b['proc']
        if proc.startswith('Error: tid'):
            name, pid = '', '-1'
        else:
            name, pid = proc[:proc.rindex('(')], proc[proc.rindex('(') + 1:-1]
        if cfg['process'] not in (name, pid):
            return False
    return True


def resolve_cfg(step, tm, dynamic):
    cfg = dict(step['cfg'])
    tm = tm or [(SC.PROGRAM_TIDS[0], 100, b'P0_main')]
    procs = [None, tm[0][2].decode(), str(tm[0][1]), 'no-such-process', str(tm[-1][1]), 'P1_Xx', tm[-1][2].decode()]
    cfg['process'] = procs[cfg['process_i'] % len(procs)]
    tids = [None, tm[0][0], SC.PROGRAM_TIDS[1], 0x999, SC.PROGRAM_TIDS[2]]
    cfg['tid'] = tids[cfg['tid_i'] % len(tids)]
    if dynamic:
        cfg['tid'], cfg['classes'], cfg['subclasses'] = None, [], []
    return cfg


_CANON = {}


def canonical_audit(where):
    """a fixed dump (lookups, strings, dyld ops, samples, faults) decoded by a FRESH parser must read the same at any
    time in the process: its first decoding (before this check issued any filtered request) is the reference"""
    if 'blob' not in _CANON:
        ops = [['call', 'BSC_open', 77, 2, 0], ['call', 'BSC_rename', 78, 2, 2], ['dyld', 'DBG_DYLD_TIMING_DLOPEN', 79, 0, 0],
               ['threadname', '', 80, 0, 0], ['sample', '', 81, 2, 15], ['fault', '', 82, 2, 0], ['launch', '', 83, 3, 0],
               ['tracesingle', 'TRACE_DATA_THREAD_TERMINATE', 0, 0, 0], ['newthread', '', 84, 0, 0], ['call', 'BSC_read', 85, 0, 4]]
        spec = {'programs': [ops, ops[::-1]], 'schedule': [0, 1] * 30, 'dynamic': True, 'unmapped_last': False}
        _CANON['blob'] = build_file(spec)[0]
        _CANON['ref'] = baseline(_CANON['blob'])
        return
    now = baseline(_CANON['blob'])
    if now != _CANON['ref']:
        got = [(b['ts'], b['tid'], b['text']) for b in now]
        exp = [(b['ts'], b['tid'], b['text']) for b in _CANON['ref']]
        raise Violation('residue-across-objects', describe(f'a fixed dump decoded by a fresh parser {where} no longer reads as it did at the '
                                                           f'start of the process (state is kept outside the parser objects)', got, exp, None))


def prop_history(ctx, case):
    from pykdebugparser.pykdebugparser import PyKdebugParser
    guard(canonical_audit, 'before this history')
    built = [build_file(s) for s in case['files']]
    bases = [guard(baseline, b[0]) for b in built]
    parser = PyKdebugParser()
    parser.color = False
    parser.show_timestamp = False
    parser.show_tid = True
    seen = {}
    cls = set()
    repeated_under_class = False
    for k, step in enumerate(case['steps']):
        fi = step['file'] % len(built)
        blob, evs, tm = built[fi]
        cfg = resolve_cfg(step, tm, case['files'][fi]['dynamic'])
        apply_cfg(parser, cfg)
        snap = (parser.filter_tid, parser.filter_process, copy.copy(parser.filter_class), copy.copy(parser.filter_subclass))
        kind = step['kind']
        key = (fi, kind, repr(cfg))
        exp_sel = [b for b in bases[fi] if pred(b, cfg)]
        where = f'step {k} ({kind}, file {fi}, cfg {cfg})'
        if step.get('partial') and kind in ('traces', 'callstacks', 'formatted_traces'):
            # the caller looks at the first result only and drops the request (what `-c 1` does): the settings are still the
            # caller's, and later requests are not affected
            def first_only():
                it = iter(getattr(parser, kind)(BudgetReader(blob)))
                x = next(it, None)
                if hasattr(it, 'close'):
                    it.close()
                return x
            guard(first_only)
            cls.add('abandoned-request')
        elif kind == 'traces':
            got = guard(lambda: [(t.ktraces[0].timestamp, t.ktraces[0].tid, str(t)) for t in parser.traces(BudgetReader(blob))])
            exp = [(b['ts'], b['tid'], b['text']) for b in exp_sel]
            if got != exp:
                raise Violation('filtered-traces', describe(where, got, exp, seen.get(key)))
        elif kind == 'formatted_traces':
            got = guard(lambda: list(parser.formatted_traces(BudgetReader(blob))))
            exp = [b['line'] for b in exp_sel]
            if got != exp:
                raise Violation('filtered-lines', describe(where, got, exp, seen.get(key)))
        elif kind == 'callstacks':
            got = guard(lambda: [tuple(c) for c in parser.callstacks(BudgetReader(blob))])
            f = fresh()
            apply_cfg(f, cfg)
            exp = guard(lambda: [tuple(c) for c in f.callstacks(BudgetReader(blob))])
            if got != exp:
                raise Violation('callstacks-not-repeatable', describe(where, got, exp, seen.get(key)))
        else:
            got = guard(lambda: list(parser.kevents(BudgetReader(blob))))
            base = guard(lambda: list(PyKdebugParser().kevents(BudgetReader(blob))))
            exp = [e for e in base if (cfg['tid'] is None or e.tid == cfg['tid']) and
                   (not (cfg['classes'] or cfg['subclasses']) or (e.eventid >> 24) in cfg['classes'] or (e.eventid >> 16) in cfg['subclasses'])]
            if got != exp:
                raise Violation('filtered-kevents', f'{where}: {len(got)} events expected {len(exp)}')
        now = (parser.filter_tid, parser.filter_process, parser.filter_class, parser.filter_subclass)
        if now[0] != snap[0] or now[1] != snap[1] or list(now[2]) != list(snap[2]) or list(now[3]) != list(snap[3]) or \
                type(now[2]) is not type(snap[2]) or type(now[3]) is not type(snap[3]):
            raise Violation('filter-residue', f'{where}: caller set {snap}, parser now holds {now}')
        if key in seen:
            cls.add('repeated-request')
            if cfg['classes'] or cfg['subclasses']:
                repeated_under_class = True
        seen[key] = k
        cls.add('kind:' + kind)
        if cfg['classes'] or cfg['subclasses']:
            cls.add('class-or-subclass-filter')
        if cfg['process'] is not None:
            cls.add('process-filter')
        if cfg['tid'] is not None:
            cls.add('tid-filter')
        if 0 < len(exp_sel) < len(bases[fi]):
            cls.add('selective')
    # final audit: after the whole history an unfiltered request on every dump still equals the fresh baseline
    parser.filter_tid = parser.filter_process = None
    parser.filter_class, parser.filter_subclass = [], []
    for fi, (blob, evs, tm) in enumerate(built):
        got = guard(lambda: [(t.ktraces[0].timestamp, t.ktraces[0].tid, str(t)) for t in parser.traces(BudgetReader(blob))])
        exp = [(b['ts'], b['tid'], b['text']) for b in bases[fi]]
        if got != exp:
            raise Violation('residue-after-history', describe(f'unfiltered request on dump {fi} after the history', got, exp, None))
        gotl = guard(lambda: list(parser.formatted_traces(BudgetReader(blob))))
        expl = [b['line'] for b in bases[fi]]
        if gotl != expl:
            raise Violation('residue-after-history', describe(f'unfiltered formatted request on dump {fi} after the history', gotl, expl, None))
        fresh_now = guard(lambda: [(t.ktraces[0].timestamp, t.ktraces[0].tid, str(t)) for t in fresh().traces(BudgetReader(blob))])
        if fresh_now != exp:
            raise Violation('residue-across-objects', describe(f'a FRESH parser on dump {fi} after the history (state kept outside the object)', fresh_now, exp, None))
    guard(canonical_audit, 'after this history')
    if any(f['dynamic'] for f in case['files']):
        cls.add('dynamic-file')
    ctx.note(None, nontrivial=repeated_under_class, classes=cls)


def describe(where, got, exp, earlier):
    k = next((i for i in range(min(len(got), len(exp))) if got[i] != exp[i]), min(len(got), len(exp)))
    rep = f' (same request already issued at step {earlier})' if earlier is not None else ''
    return f'{where}{rep}: {len(got)} results, expected {len(exp)}; first difference at {k}: got {got[k:k + 1]} expected {exp[k:k + 1]}'


def prop_callstack_history(ctx, case):
    """repeated callstack requests (same dump or two dumps) on one parser object == fresh parser each time"""
    from pykdebugparser.pykdebugparser import PyKdebugParser
    from . import c15
    blobs = []
    for f in case['files']:
        progs = [c15.expand(c15.TIDS[i], ops) for i, ops in enumerate(f['programs'])]
        evs = SC.merge(progs, f['schedule'])
        recs = [kmodel.ev_record((1001 + 7 * k, tid, EV.eid(code) | q, data)) for k, (tid, code, q, data) in enumerate(evs)]
        blobs.append(kmodel.v2_file([], 0, recs))
    parser = PyKdebugParser()
    polluted = False
    for k, fi in enumerate(case['requests']):
        blob = blobs[fi % len(blobs)]
        got = guard(lambda: [tuple(c) for c in parser.callstacks(BudgetReader(blob))])
        exp = guard(lambda: [tuple(c) for c in PyKdebugParser().callstacks(BudgetReader(blob))])
        if got != exp:
            i = next((j for j in range(min(len(got), len(exp))) if got[j] != exp[j]), min(len(got), len(exp)))
            raise Violation('callstacks-not-repeatable', f'request {k} (dump {fi % len(blobs)}) on a reused parser: callstack {i} is '
                                                         f'{got[i:i + 1]}, a fresh parser gives {exp[i:i + 1]}')
        polluted = polluted or (k > 0 and any(f.uuid is not None for c in exp for f in c[2]))
    ctx.note(None, nontrivial=polluted and len(case['requests']) >= 2, classes=['callstack-history', f'dumps:{len(blobs)}'])


def prop_cli(ctx, case):
    """the trace filters as the command line offers them"""
    blob, evs, tm = build_file(case['file'])
    base = guard(baseline, blob)
    cfg = resolve_cfg({'cfg': case['cfg']}, tm, case['file']['dynamic'])
    o = {'tid': cfg['tid'], 'process': cfg['process'], 'cf': cfg['classes'], 'sf': cfg['subclasses'], 'show_tid': case['show_tid'],
         'color': case['color'], 'radix': case['radix']}
    lines = guard(CLI.reference_items, 'traces', o, blob)
    if len(lines) != len(base):
        raise Violation('cli:traces:lines', f'{len(lines)} formatted lines for {len(base)} traces')
    keep = [ln for ln, b in zip(lines, base) if pred(b, cfg)]
    CLI.expect('traces', o, blob, keep, 'the options select exactly the matching traces')
    cs = guard(CLI.reference_items, 'callstacks', o, blob, True)
    CLI.expect('callstacks', o, blob, cs, 'same as the library listing with these filters')
    active = cfg['tid'] is not None or cfg['process'] is not None or bool(cfg['classes'] or cfg['subclasses'])
    ctx.note([blob, o], nontrivial=active and 0 < len(keep) < len(base), classes=['cli', *(['cli-callstacks'] if cs else [])])


def prop_v3(ctx, case):
    """the same streams inside a version-3 container that also carries log records: a filtered trace request reads the
    whole dump (events, then logs) and yields exactly the matching traces"""
    _, evs, tm = build_file(case['file'])
    recs = [kmodel.ev_record((1001 + 7 * k, tid, (EV.eid(code) & ~3) | q, data)) for k, (tid, code, q, data) in enumerate(evs)]
    v3 = dict(case['v3'])
    cut = case['cut'] % (len(recs) + 1)
    v3['chunks'] = [recs[:cut], recs[cut:]]
    v3['tm'] = [list(t) + [b''] for t in tm]
    blob = files.build_v3(v3)
    base = guard(baseline, blob)
    cfg = resolve_cfg({'cfg': case['cfg']}, tm, case['file']['dynamic'])
    p = fresh()
    apply_cfg(p, cfg)
    got = guard(lambda: [(t.ktraces[0].timestamp, t.ktraces[0].tid, str(t)) for t in p.traces(BudgetReader(blob))])
    exp = [(b['ts'], b['tid'], b['text']) for b in base if pred(b, cfg)]
    if got != exp:
        raise Violation('filtered-traces:v3', describe(f'version-3 dump with {len(files.v3_all_logs(v3))} log records, cfg {cfg}', got, exp, None))
    gotl = guard(lambda: list(p.formatted_traces(BudgetReader(blob))))
    expl = [b['line'] for b in base if pred(b, cfg)]
    if gotl != expl:
        raise Violation('filtered-lines:v3', describe(f'version-3 dump, cfg {cfg}', gotl, expl, None))
    ctx.note([blob, repr(cfg)], nontrivial=bool(files.v3_all_logs(v3)) and (cfg['tid'] is not None or cfg['process'] is not None or bool(cfg['classes'] or cfg['subclasses'])),
             classes=['v3', 'with-logs' if files.v3_all_logs(v3) else 'no-logs', *(['tid-filter'] if cfg['tid'] is not None else [])])


def prop_huge_window(ctx, case):
    """one call that stays open while its thread logs tens of thousands of records of other classes, then looks its path
    up: the filtered and the unfiltered request show the same call"""
    n, seed = case['n'], case['seed']
    tid = SC.PROGRAM_TIDS[0]
    path = b'/etc/' + b'h' * (10 + seed % 40)
    evs = [SC.ev(tid, 'BSC_open', 1, seed, 0)] + [SC.junk(tid, seed + j, j % 5) for j in range(n)] + EV.lookup_events(tid, 9, path) + [SC.ev(tid, 'BSC_open', 2, seed, 1)]
    evs = [e for e in evs if not (isinstance(e[1], str) and e[1].startswith('BSC_') and e[1] != 'BSC_open')]
    recs = [kmodel.ev_record((1001 + 7 * k, t, (EV.eid(c) & ~3) | q, d)) for k, (t, c, q, d) in enumerate(evs)]
    blob = kmodel.v2_file([(tid, 100, b'P0_main')], 0, recs)
    p = fresh()
    unfiltered = guard(lambda: [str(t) for t in p.traces(BudgetReader(blob)) if t.ktraces[0].eventid == EV.eid('BSC_open')])
    q = fresh()
    q.filter_class = [4]
    filtered = guard(lambda: [str(t) for t in q.traces(BudgetReader(blob)) if t.ktraces[0].eventid == EV.eid('BSC_open')])
    if unfiltered != filtered or len(filtered) != 1 or path.decode() not in filtered[0]:
        raise Violation('filtered-traces:huge-window', f'open() with {n} records of other classes inside its window: unfiltered {unfiltered}, BSD-filtered {filtered}, path {path.decode()!r}')
    ctx.note(['huge', n, seed], nontrivial=True, classes=[f'window-records:{n}'])


def prop_split_lookup(ctx, case):
    """records of other classes land BETWEEN the chunk records of one long lookup (an interrupt, a scheduler record): the call
    shows the same path unfiltered, under the BSD class filter and under its BSD subclass filter"""
    seed, name = case['seed'], case['name']
    tid = SC.PROGRAM_TIDS[0]
    path = b'/Users/x/Library/Caches/' + b'd' * (30 + seed % 100) + b'/data.bin'
    chunks = EV.lookup_events(tid, 9, path[:184])
    evs = [SC.ev(tid, name, 1, seed, 0)]
    for i, c in enumerate(chunks):
        evs.append(c)
        if i < len(chunks) - 1 and (seed >> i) % 2 == 0:
            evs.append(SC.ev(tid, ['MACH_SCHED', 'INTERRUPT', 'PERF_THD_CSwitch', 'DecrSet'][(seed + i) % 4], 0, seed, 10 + i))
    evs.append(SC.ev(tid, name, 2, seed, 1))
    recs = [kmodel.ev_record((1001 + 7 * k, t, (EV.eid(c) & ~3) | q, d)) for k, (t, c, q, d) in enumerate(evs)]
    blob = kmodel.v2_file([(tid, 100, b'P0_main')], 0, recs)
    texts = {}
    for label, fc, fs in (('unfiltered', [], []), ('class 4', [4], []), ('subclass', [], [EV.eid(name) >> 16]), ('class 1 + subclass', [1], [EV.eid(name) >> 16])):
        p = fresh()
        p.filter_class, p.filter_subclass = fc, fs
        texts[label] = guard(lambda: [str(t) for t in p.traces(BudgetReader(blob)) if t.ktraces[0].eventid == EV.eid(name)])
    if len(set(map(tuple, texts.values()))) != 1 or len(texts['unfiltered']) != 1 or path[:184].decode() not in texts['unfiltered'][0]:
        raise Violation('filtered-traces:split-lookup', f'{name} whose {len(chunks)}-record lookup is interleaved with records of other classes: {texts}')
    ctx.note(['split', name, seed], nontrivial=True, classes=['split-lookup'])


PROPS = {'split_lookup': prop_split_lookup, 'history': prop_history, 'callstack_history': prop_callstack_history, 'cli': prop_cli, 'v3': prop_v3, 'huge_window': prop_huge_window}


def strategy():
    special = st.one_of(
        st.tuples(st.just('tracesingle'), st.just('TRACE_DATA_THREAD_TERMINATE'), st.sampled_from([0, 4, 7, 11, 14, 18, 21]), st.integers(0, 3), st.integers(0, 15)),
        st.tuples(st.just('threadname'), st.just(''), S.u64, st.integers(0, 3), st.integers(0, 15)),
        st.tuples(st.just('globalstring'), st.just(''), S.u64, st.integers(0, 3), st.integers(0, 15)),
        # operations whose decoding needs a helper class: path-taking syscalls with lookups, dyld ops with announced strings
        st.tuples(st.just('call'), st.sampled_from(['BSC_open', 'BSC_rename', 'BSC_stat64', 'BSC_openat', 'BSC_linkat', 'BSC_access', 'BSC_unlink']),
                  S.u64, st.integers(1, 2), st.integers(0, 15)),
        st.tuples(st.just('call'), st.sampled_from(['BSC_open', 'BSC_rename', 'BSC_mkdir']), S.u64, st.integers(1, 2), st.sampled_from([0, 1, 2, 4, 8, 8, 9, 10, 12, 15])),
        st.tuples(st.just('dyld'), st.sampled_from(sorted(SC.DYLD_STRING_OPS)), st.integers(5000, 2 ** 40), st.integers(0, 3), st.sampled_from([0, 2, 4]))).map(list)
    op = st.one_of(SC.op_strategy(), SC.op_strategy(), special)
    programs = st.lists(st.lists(op, min_size=1, max_size=5), min_size=2, max_size=3)
    fspec = st.fixed_dictionaries({'programs': programs, 'schedule': st.lists(st.integers(0, 2), max_size=60),
                                   'dynamic': st.sampled_from([False, False, True]), 'unmapped_last': st.booleans(),
                                   'no_map': st.sampled_from([False, False, False, True]), 'numeric_names': st.sampled_from([False, False, False, True])})
    cfg = st.fixed_dictionaries({
        'tid_i': st.sampled_from([0, 0, 1, 2, 3, 4]), 'process_i': st.sampled_from([0, 0, 0, 1, 2, 3, 4, 5, 6, 1]),
        'classes': st.one_of(st.just([]), st.lists(st.sampled_from(CLASSES), min_size=1, max_size=3)),
        'subclasses': st.one_of(st.just([]), st.just([]), st.lists(st.sampled_from(BSD_SUBCLASSES), min_size=1, max_size=2)),
        'as_tuple': st.sampled_from([False, False, True]), 'in_place': st.sampled_from([False, False, True])})
    step = st.fixed_dictionaries({'file': st.integers(0, 1), 'kind': st.sampled_from(['traces', 'formatted_traces', 'traces', 'callstacks', 'kevents']),
                                  'cfg': cfg, 'partial': st.sampled_from([False, False, False, True])})

    def with_repeats(t):
        steps, dups = t
        out = list(steps)
        for d in dups:
            out.append(copy.deepcopy(out[d % len(out)]))
        return out
    steps = st.tuples(st.lists(step, min_size=1, max_size=5), st.lists(st.integers(0, 9), min_size=1, max_size=3)).map(with_repeats)
    return st.fixed_dictionaries({'files': st.lists(fspec, min_size=1, max_size=2), 'steps': steps,
                                  'cli': st.fixed_dictionaries({'file': fspec, 'cfg': cfg, 'show_tid': st.sampled_from([None, True, False]),
                                                                'color': st.sampled_from([None, False, False, True]), 'radix': st.integers(0, 2)})})


def callstack_strategy():
    from . import c15
    f = st.fixed_dictionaries({'programs': st.lists(st.lists(c15.op_strategy(), min_size=1, max_size=6), min_size=1, max_size=2),
                               'schedule': st.lists(st.integers(0, 1), max_size=40)})
    return st.fixed_dictionaries({'files': st.lists(f, min_size=1, max_size=2), 'requests': st.lists(st.integers(0, 1), min_size=2, max_size=4)})


def run(ctx):
    ctx.run_given('callstack_history', callstack_strategy(), prop_callstack_history, ctx.n(300, 1500))
    ctx.run_given('history', strategy(), prop_history, ctx.n(500, 1800))
    v3 = st.fixed_dictionaries({'file': strategy().map(lambda c: c['cli']['file']), 'cfg': strategy().map(lambda c: c['cli']['cfg']), 'cut': st.integers(0, 200),
                                'v3': files.v3_spec(max_events=0, max_n=2, tids=SC.PROGRAM_TIDS[:3], records_strategy=st.just([]), log_copies=2, force_logs=True)})
    ctx.run_given('v3', v3, prop_v3, ctx.n(80, 600))
    if ctx.shard == 0:
        sl = [{'seed': ctx.seed * 17 + k, 'name': n} for k, n in enumerate(['BSC_open', 'BSC_stat64', 'BSC_access', 'BSC_open', 'BSC_unlink', 'BSC_open'] * ctx.n(1, 5))]
        ctx.run_enum('split_lookup', sl, prop_split_lookup, exhaustive_label='path-taking calls whose long lookup is interleaved with records of other classes')
        ctx.run_enum('huge_window', [{'n': n, 'seed': ctx.seed * 13 + k} for k, n in enumerate([20000] if ctx.quick else [5000, 20000, 36000, 70000])], prop_huge_window,
                     exhaustive_label='an open() window holding 20000 (thorough: up to 70000) records of other classes before its lookup')
    if ctx.failures:
        return          # the command line reads real files without a read budget: not on a tree that already fails
    ctx.run_given('cli', strategy().map(lambda c: c['cli']), prop_cli, ctx.n(80, 400))
