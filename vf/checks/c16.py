"""C16 — log records decode for every combination of optional fields."""
import copy
import itertools

from hypothesis import strategies as st

from .. import kmodel, logs, strategies as S
from ..core import Violation, guard
from ..io_util import HOST_ZONES, host_tz

ID = 'C16'
RULE = ('record: raw log dict = 10 mandatory keys + hypothesis-drawn subset of the 31 optional keys, in-range values, '
        'string indexes into a generated table (index 0 always in use), decomposed messages of every shape, decoded on hosts of 7 '
        'local time zones (TZ + tzset); '
        'subsets: for a full 31-key record, decode the empty set, the full set, all 31 singletons and all 465 pairs '
        'of optional keys; identifier: firehose words packed by an independent encoder (quick: sampled; thorough: '
        'the complete finite product namespace x type x pc_style x 3 booleans x namespace flags, random code). '
        'Oracle: hand-written key->field table with transformations and defaults; exact inverse of the bit packing. '
        'Non-trivial: >= 3 optional keys or a decomposed message with segments; identifier with non-zero flags or '
        'pc_style; distinct by key set + message shape / identifier tuple.')
ASSUMPTIONS = ['inside a segment argument the category key "c" is always present (the decoder reads it unconditionally)',
               'scalar_category/scalar_type of non-scalar arguments and object_representation of unavailable '
               'arguments may be shown or omitted (the decoder omits them by design); an empty token list may be '
               'shown or omitted; segments of a message with placeholder_count 0 may be omitted',
               'identifier flags of namespaces other than log may be reported as None',
               'UTC instant compared with 1 microsecond tolerance (float seconds in the decoder)']


def decode(rec, table):
    from pykdebugparser.os_log_event import OsLogEvent
    raw = logs.realize(rec, table)
    strings = {i: s for i, s in table}
    return OsLogEvent.from_raw_log_event(copy.deepcopy(raw), strings)


def shape(rec):
    dm = rec.get('dm')
    sh = None
    if dm is not None:
        sh = [dm['pc']] + [sorted(s) + sorted(s.get('p', {})) + sorted(s.get('a', {})) for s in dm.get('seg', [])]
    return [sorted(k for k in rec if k in logs.OPTIONAL), sh]


def prop_record(ctx, case):
    rec, table = case['rec'], case['table']
    with host_tz(case.get('zone')):
        ev = guard(decode, rec, table)
    logs.check_decoded(ev, rec, table, Violation)
    nopt = sum(1 for k in rec if k in logs.OPTIONAL)
    has_seg = bool(rec.get('dm', {}).get('seg'))
    cls = [f'optional:{min(nopt // 5 * 5, 30)}+']
    if has_seg:
        cls.append('dm-with-segments')
    if 'ti' in rec:
        cls.append('ti:' + logs.NS_NAMES[rec['ti'][0][0]])
    if any(rec.get(k) == 0 for k in ('pip', 'p', 'sip', 'send', 'sub', 'cat', 'f', 'sn')):
        cls.append('string-index-0')
    cls.append('host-zone:' + str(case.get('zone'))[:5])
    ctx.note(shape(rec) + [case.get('zone')], nontrivial=nopt >= 3 or has_seg, classes=cls)


def prop_subsets(ctx, case):
    full, table = case['rec'], case['table']
    keys = logs.OPT_KEYS
    subsets = [()] + [tuple(keys)] + [(k,) for k in keys] + list(itertools.combinations(keys, 2))
    for sub in subsets:
        rec = {k: v for k, v in full.items() if k in logs.MANDATORY or k in sub}
        try:
            ev = guard(decode, rec, table)
            logs.check_decoded(ev, rec, table, Violation)
        except Violation as v:
            raise Violation(v.signature, f'subset {sub}: {v.message}') from v
        ctx.note(['subset', list(sub), digest_small(full)], nontrivial=len(sub) >= 2, classes=[f'subset-size:{min(len(sub), 3)}'])


def digest_small(o):
    from ..core import digest
    return digest(o).hex()


def prop_identifier(ctx, case):
    from pykdebugparser.os_log_event import OsLogEvent
    tup, code = tuple(case['tup']), case['code']
    word = kmodel.firehose_id(*tup, code)
    ti = guard(OsLogEvent.parse_trace_identifier, word)
    logs.check_identifier(ti, tup, code, Violation)
    ctx.note(['ti', list(tup)], nontrivial=tup[6] != 0 or tup[3] != 0, classes=['ns:' + logs.NS_NAMES[tup[0]]])


PROPS = {'record': prop_record, 'subsets': prop_subsets, 'identifier': prop_identifier}


def record_case(full=False):
    return logs.string_table().flatmap(lambda table: st.fixed_dictionaries({
        'table': st.just(table), 'zone': st.sampled_from(HOST_ZONES),
        'rec': logs.raw_record(table, keyset=logs.OPT_KEYS if full else None)}))


def run(ctx):
    ctx.run_given('record', record_case(), prop_record, ctx.n(1500, 5000))
    ctx.run_given('subsets', record_case(full=True), prop_subsets, ctx.n(12, 40))
    if ctx.quick:
        ctx.run_given('identifier', st.fixed_dictionaries({'tup': logs.identifier_tuple(), 'code': S.u32}),
                      prop_identifier, 2000)
    else:
        codes = [0, 1, 0xffffffff, 1730654, 0x80000000]
        cases = ({'tup': list(t), 'code': codes[i % len(codes)]} for i, t in enumerate(logs.all_identifier_tuples()))
        ctx.run_enum('identifier', cases, prop_identifier, exhaustive_label='all defined trace-identifier tuples')
