"""The command-line front end (python -m pykdebugparser <command> [options] DUMP), driven in-process through click's
test runner on a scratch file. The pinned test-suite never runs a command, so only these sub-checks see the wiring of
options to the listings.

An option set is plain data: {'tid': int|None, 'process': str|None, 'show_tid': True|False|None (None = omitted),
'cf': [int], 'sf': [int], 'color': True|False|None, 'count': int|None, 'radix': 0|1|2 (how -cf/-sf are spelled)}.
"""
import os
import tempfile

from .core import HarnessError, Violation, guard

LISTINGS = ('kevents', 'traces', 'callstacks', 'logs')
ACCEPTS = {'kevents': {'tid', 'show_tid', 'cf', 'sf', 'count'},
           'traces': {'tid', 'process', 'show_tid', 'cf', 'sf', 'color', 'count'},
           'callstacks': {'tid', 'process', 'show_tid', 'count'},
           'logs': {'tid', 'process', 'show_tid', 'count'}}


def spell(v, radix):
    return [str(v), hex(v), oct(v)][radix % 3]


def argv(cmd, o, path):
    a = [cmd]
    acc = ACCEPTS.get(cmd, set())
    if 'count' in acc and o.get('count') is not None:
        a += ['-c' if o.get('radix', 0) % 2 else '--count', str(o['count'])]
    if 'tid' in acc and o.get('tid') is not None:
        a += ['--tid', str(o['tid'])]
    if 'process' in acc and o.get('process') is not None:
        a += ["--process=" + o["process"]]
    if 'show_tid' in acc and o.get('show_tid') is not None:
        a += ['--show-tid' if o['show_tid'] else '--no-show-tid']
    if 'cf' in acc:
        for k, v in enumerate(o.get('cf') or []):
            a += ['-cf' if k % 2 == 0 else '--class-filters', spell(v, o.get('radix', 0) + k)]
    if 'sf' in acc:
        for k, v in enumerate(o.get('sf') or []):
            a += ['-sf' if k % 2 == 0 else '--subclass-filters', spell(v, o.get('radix', 0) + k)]
    if 'color' in acc and o.get('color') is not None:
        a += ['--color' if o['color'] else '--no-color']
    return a + [path]


def invoke(cmd, o, blob):
    """-> (text written to stdout, name of the exception type that ended the command or None)"""
    from click.testing import CliRunner
    from pykdebugparser.__main__ import cli
    fd, path = tempfile.mkstemp(prefix='vf-cli-')
    try:
        with os.fdopen(fd, 'wb') as f:
            f.write(blob)
        args = argv(cmd, o, path)
        r = CliRunner().invoke(cli, args)
    finally:
        os.unlink(path)
    if r.exit_code == 2 and r.exception is not None and isinstance(r.exception, SystemExit):
        raise HarnessError(f'the command line {args[:-1]} was rejected as a usage error: {r.output[-300:]}')
    exc = None
    if r.exception is not None and not isinstance(r.exception, SystemExit):
        exc = type(r.exception).__name__
    return r.output, exc


def reference_items(cmd, o, blob, filtered=False):
    """items of the library listing under the COLUMN options of the command line (show-tid, colour; defaults as the
    command documents them: no thread column, colour on for traces). Filters are applied only when `filtered`."""
    from pykdebugparser.pykdebugparser import PyKdebugParser
    from .io_util import BudgetReader
    p = PyKdebugParser()
    p.show_tid = bool(o.get('show_tid'))
    if cmd == 'traces':
        p.color = True if o.get('color') is None else bool(o['color'])
    if filtered:
        acc = ACCEPTS[cmd]
        p.filter_tid = o.get('tid') if 'tid' in acc else None
        p.filter_process = o.get('process') if 'process' in acc else None
        p.filter_class = list(o.get('cf') or []) if 'cf' in acc else []
        p.filter_subclass = list(o.get('sf') or []) if 'sf' in acc else []
    fn = {'kevents': p.formatted_kevents, 'traces': p.formatted_traces, 'callstacks': p.formatted_callstacks, 'logs': p.formatted_logs}[cmd]
    return [str(x) for x in fn(BudgetReader(blob))]


def text_of(items):
    return ''.join(x + '\n' for x in items)


def expect(cmd, o, blob, expected_items, what):
    out, exc = guard(invoke, cmd, o, blob)
    exp = text_of(expected_items)
    if exc is not None:
        raise Violation(f'cli:{cmd}:fails', f'`{" ".join(argv(cmd, o, "DUMP"))}` ends with {exc} on a dump the library lists completely')
    if out != exp:
        gl, el = out.split('\n'), exp.split('\n')
        k = next((i for i in range(min(len(gl), len(el))) if gl[i] != el[i]), min(len(gl), len(el)))
        raise Violation(f'cli:{cmd}:{what}', f'`{" ".join(argv(cmd, o, "DUMP"))}` prints {len(gl) - 1} lines, expected {len(el) - 1} ({what}); '
                                             f'first difference at line {k}: {gl[k:k + 1]} expected {el[k:k + 1]}')
    return out


def invoke_subprocess(cmd, o, blob, hashseed=None, optimize=0, zone=None):
    """the command line as users start it: a fresh interpreter (`python [-O] -m pykdebugparser ...`), optionally with
    another string-hash seed, optimisation level or local time zone -> (stdout, stderr tail, exit code)"""
    import subprocess
    import sys
    from .core import REPO_ROOT
    fd, path = tempfile.mkstemp(prefix='vf-cli-')
    try:
        with os.fdopen(fd, 'wb') as f:
            f.write(blob)
        env = dict(os.environ, PYTHONPATH=str(REPO_ROOT), FORCE_COLOR='1')
        env.pop('NO_COLOR', None)
        if hashseed is not None:
            env['PYTHONHASHSEED'] = str(hashseed)
        if zone is not None:
            env['TZ'] = zone
        flags = ['-' + 'O' * optimize] if optimize else []
        r = subprocess.run([sys.executable, *flags, '-m', 'pykdebugparser', *argv(cmd, o, path)], env=env, cwd=str(REPO_ROOT),
                           capture_output=True, text=True, timeout=280)
    finally:
        os.unlink(path)
    return r.stdout, r.stderr[-400:], r.returncode
