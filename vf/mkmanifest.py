"""Regenerates MANIFEST.json from the table below:  /venv/bin/python -m vf.mkmanifest"""
import json
from pathlib import Path

ROOT = Path(__file__).resolve().parent.parent

SETUP = ("/venv/bin/python -c 'import hypothesis' 2>/dev/null || "
         "/venv/bin/pip install --no-index --find-links /opt/veriftools/wheels hypothesis")

BASELINE = ("cd /repo && env -u PYKDEBUGPARSER_VERIF /venv/bin/python -m pytest -ra -q -p no:cacheprovider "
            "--timeout=900 --continue-on-collection-errors")

# id -> (technique, level text, level note, design ref)
CHECKS = {
    'C01': ('property-based testing (hypothesis) with an independent field-extraction oracle + enumerated '
            'one-hot/one-cold records + single-bit-flip metamorphic non-interference',
            'generated-input exploration: every run decodes thousands of random/structured records and all 1024 '
            'one-hot/one-cold records against an independent int.from_bytes oracle; bit-flip non-interference '
            'covers every bit position. The decoder is branch-free, so field-level sampling with every bit '
            'position enumerated is the right depth.',
            'trusts int.from_bytes/struct of CPython; domain is exactly 64-byte inputs', '4 C01'),
}

NOT_YET = {}


def main():
    props = [json.loads(l) for l in (ROOT / 'properties.jsonl').read_text().splitlines() if l.strip()]
    checks = []
    na = []
    for p in props:
        pid = p['id']
        if pid in CHECKS and (ROOT / 'vf' / 'checks' / f'{pid.lower()}.py').exists():
            tech, text, note, ref = CHECKS[pid]
            checks.append({
                'property_id': pid,
                'quick_cmd': f'PYTHONHASHSEED=0 /venv/bin/python -m vf.run {pid} --tier quick',
                'thorough_cmd': f'PYTHONHASHSEED=0 /venv/bin/python -m vf.run {pid} --tier thorough',
                'evidence_file': f'evidence/{pid}.json',
                'replay_cmd_template': f'PYTHONHASHSEED=0 /venv/bin/python -m vf.run {pid} --replay {{path}}',
                'engine': 'vf',
                'level_claimed': {'category': 'exploration', 'text': text, 'design_ref': f'DESIGN.md section {ref}'},
                'level_note': note,
                'technique': tech,
            })
        else:
            na.append({'property_id': pid, 'reason': NOT_YET.get(
                pid, 'check designed (DESIGN.md section 4) but not built yet in this tree; nothing is claimed')})
    man = {
        'version': 1,
        'setup_cmd': SETUP,
        'hooks': {
            'guard': 'PYKDEBUGPARSER_VERIF',
            'enable': 'no hooks exist: every property is observed through public entry points; checks import '
                      'pykdebugparser straight from /repo (working tree)',
            'baseline_off_cmd': BASELINE,
            'source_commits': [],
            'add_only': True,
        },
        'engines': [{'name': 'vf', 'path': 'vf/', 'serves_properties': [c['property_id'] for c in checks],
                     'kind_free_text': 'hypothesis-driven property-based testing with independent encoder models, '
                                       'declarative history oracles, metamorphic relations and exhaustive '
                                       'enumeration of small finite sub-domains; 16-way sharded thorough tier'}],
        'checks': checks,
        'not_applicable': na,
        'notes': 'All checks: cwd=/verif, honour VERIF_SEED, rewrite evidence/<id>.json, exit 2 + HARNESS-ERROR on '
                 'harness faults. Known findings: known_findings.json. See DESIGN.md.',
    }
    (ROOT / 'MANIFEST.json').write_text(json.dumps(man, indent=1) + '\n')
    print(f'{len(checks)} checks, {len(na)} not_applicable')


if __name__ == '__main__':
    main()
