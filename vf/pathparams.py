"""Path parameters of the path-taking BSD decoders (DESIGN.md appendix A): reviewed against the source and the
Darwin prototypes; typed by hand.  name -> list of (parameter position, lookup index)."""

_ONE_AT_0 = """access acct chdir chflags chmod chown chroot fsctl getattrlist getfh getxattr guarded_open_dprotected_np
guarded_open_np lchown listxattr lstat64 mkdir mkfifo mknod open open_dprotected_np open_nocancel pathconf quotactl
readlink removexattr revoke rmdir searchfs setattrlist setxattr stat64 statfs statfs64 truncate undelete unlink unmount
utimes""".split()
_ONE_AT_1 = """faccessat fchmodat fchownat fstatat fstatat64 getattrlistat mkdirat openat openat_nocancel readlinkat
setattrlistat symlink unlinkat""".split()

PATH_PARAMS = {}
for _n in _ONE_AT_0:
    PATH_PARAMS['BSC_' + _n] = [(0, 0)]
for _n in _ONE_AT_1:
    PATH_PARAMS['BSC_' + _n] = [(1, 0)]
PATH_PARAMS['BSC_fclonefileat'] = [(2, 0)]
for _n in 'exchangedata link mount pivot_root rename'.split():
    PATH_PARAMS['BSC_' + _n] = [(0, 0), (1, 1)]
for _n in 'clonefileat linkat renameat renameatx_np'.split():
    PATH_PARAMS['BSC_' + _n] = [(1, 0), (3, 1)]
PATH_PARAMS['BSC_fs_snapshot'] = [(2, 0), (3, 1)]
SPECIAL = ['BSC_symlinkat', 'BSC_posix_spawn', 'BSC_fsgetpath']
assert len(PATH_PARAMS) == 39 + 13 + 1 + 5 + 4 + 1


def expected_paths(name, lookups):
    """-> list of (position, expected path text) for the rendered call, given the looked-up paths in order"""
    k = len(lookups)

    def lk(i):
        return lookups[i] if i < k else ''
    if name in PATH_PARAMS:
        return [(pos, lk(i)) for pos, i in PATH_PARAMS[name]]
    if name == 'BSC_symlinkat':
        if k == 0:
            return [(0, ''), (2, '')]
        if k == 1:
            return [(0, ''), (2, lookups[0])]
        return [(0, lookups[0]), (2, lookups[-1])]
    if name == 'BSC_posix_spawn':
        return [(1, lk(3) if k >= 6 else lk(0))]
    raise KeyError(name)
