"""Raw os_log records (the dicts stored in a version-3 dump's log blocks): generator and hand-written expectation.

The key->field table, the transformations and the defaults are typed by hand from the format description
(DESIGN.md appendix B); nothing here reads the repository's dataclass.
"""
import copy
from datetime import datetime, timezone, timedelta

from hypothesis import strategies as st

from . import kmodel, strategies as S

MANDATORY = ['cm', 't', 's', 'tid', 'ns', 'mct', 'b', 'piu', 'ud', 'utz']

# key -> (field, kind)   kind: raw | str (through string index) | tz | bt | lc | lt | ti | dm
OPTIONAL = {
    'ti': ('trace_identifier', 'ti'), 'pip': ('process_image_path', 'str'), 'p': ('process', 'str'),
    'sip': ('sender_image_path', 'str'), 'send': ('sender', 'str'), 'sio': ('sender_image_offset', 'raw'),
    'siu': ('sender_image_uuid', 'raw'), 'lt': ('log_type', 'lt'), 'ttl': ('time_to_live', 'raw'),
    'pid': ('process_identifier', 'raw'), 'aid': ('activity_identifier', 'raw'),
    'paid': ('parent_activity_identifier', 'raw'), 'tai': ('transition_activity_identifier', 'raw'),
    'sub': ('subsystem', 'str'), 'cat': ('category', 'str'), 'f': ('format_string', 'str'),
    'cai': ('creator_activity_identifier', 'raw'), 'cpui': ('creator_process_unique_identifier', 'raw'),
    'si': ('signpost_identifier', 'raw'), 'sn': ('signpost_name', 'str'), 'st': ('signpost_type', 'raw'),
    'ss': ('signpost_scope', 'raw'), 'lsmct': ('loss_start_mach_continuous_timestamp', 'raw'),
    'lemct': ('loss_end_mach_continuous_timestamp', 'raw'), 'lsud': ('loss_start_unix_date', 'raw'),
    'leud': ('loss_end_unix_date', 'raw'), 'lsutz': ('loss_start_unix_timezone', 'tz'),
    'leutz': ('loss_end_unix_timezone', 'tz'), 'bt': ('backtrace', 'bt'), 'lc': ('loss_count', 'lc'),
    'dm': ('decomposed_message', 'dm'),
}
assert len(OPTIONAL) == 31
OPT_KEYS = sorted(OPTIONAL)

DEFAULTS = {
    'process_image_path': '', 'process': '', 'sender_image_path': '', 'sender': '', 'sender_image_offset': 0,
    'sender_image_uuid': b'', 'log_type': None, 'time_to_live': 0, 'process_identifier': 0, 'subsystem': '',
    'category': '', 'format_string': '', 'activity_identifier': 0, 'parent_activity_identifier': 0,
    'transition_activity_identifier': 0, 'decomposed_message': {}, 'trace_identifier': None,
    'creator_activity_identifier': 0, 'creator_process_unique_identifier': 0, 'signpost_identifier': 0,
    'signpost_name': '', 'signpost_type': 0, 'signpost_scope': 0, 'loss_start_mach_continuous_timestamp': 0,
    'loss_end_mach_continuous_timestamp': 0, 'loss_start_unix_date': {}, 'loss_end_unix_date': {},
    'loss_start_unix_timezone': {}, 'loss_end_unix_timezone': {}, 'loss_count': {}, 'backtrace': [],
}

LOG_TYPES = [0, 1, 2, 0x10, 0x11]

# ----------------------------------------------------------------------------- trace identifiers (firehose)

NS_UNKNOWN, NS_ACTIVITY, NS_TRACE, NS_LOG, NS_METADATA, NS_SIGNPOST, NS_LOSS = 0, 2, 3, 4, 5, 6, 7
NS_NAMES = {0: 'unknown', 2: 'activity', 3: 'trace', 4: 'log', 5: 'metadata', 6: 'signpost', 7: 'loss'}
NS_TYPES = {
    NS_ACTIVITY: [1, 2, 3], NS_TRACE: [0, 1, 2, 0x10, 0x11], NS_LOG: [0, 1, 2, 0x10, 0x11],
    NS_METADATA: [1, 2, 3, 4], NS_SIGNPOST: [s | i for s in (0x40, 0x80, 0xc0) for i in (0, 1, 2)], NS_LOSS: [0],
    NS_UNKNOWN: [0],        # the all-zero identifier (a record that carries the key with nothing in it)
}
SIGNPOST_FLAG_BITS = [1, 2, 4, 8, 0x10, 0x80]
PC_STYLE_NAMES = ['none', 'main_exe', 'shared_cache', 'main_plugin', 'absolute', 'uuid_relative', 'large_shared_cache', '_unused7']
_LEVELS = {0: 'default', 1: 'info', 2: 'debug', 0x10: 'error', 0x11: 'fault'}
TYPE_NAMES = {NS_ACTIVITY: {1: 'create', 2: 'swap', 3: 'useraction'}, NS_TRACE: _LEVELS, NS_LOG: _LEVELS,
              NS_METADATA: {1: 'dyld', 2: 'subsystem', 3: 'kext', 4: 'coprocessor'}}
SIGNPOST_TYPE_MEMBERS = {'event': 0, 'interval_begin': 1, 'interval_end': 2, 'scope_thread': 0x40, 'scope_process': 0x80, 'scope_system': 0xc0}
LOG_FLAG_MEMBERS = {'has_private_data': 1, 'has_subsystem': 2, 'has_rules': 4, 'has_oversize': 8, 'has_context_data': 0x10}
SIGNPOST_FLAG_MEMBERS = dict(LOG_FLAG_MEMBERS, has_name=0x80)


def ns_flag_values(ns):
    if ns == NS_LOG:
        return list(range(32))
    if ns == NS_SIGNPOST:
        out = []
        for m in range(64):
            out.append(sum(b for i, b in enumerate(SIGNPOST_FLAG_BITS) if m >> i & 1))
        return out
    return [0]


def all_identifier_tuples():
    """the finite product of defined identifier words (code excluded)"""
    for ns, types in NS_TYPES.items():
        for ty in types:
            for fl in ns_flag_values(ns):
                for pc in range(8):
                    for bits in range(8):
                        yield (ns, ty, bits & 1, pc, bits >> 1 & 1, bits >> 2 & 1, fl)


def identifier_tuple():
    def for_ns(ns):
        return st.tuples(st.just(ns), st.sampled_from(NS_TYPES[ns]), st.integers(0, 1), st.integers(0, 7),
                         st.integers(0, 1), st.integers(0, 1), st.sampled_from(ns_flag_values(ns)))
    return st.sampled_from(sorted(NS_TYPES)).flatmap(for_ns)


def check_identifier(ti, tup, code, V):
    ns, ty, aid, pc, upid, large, fl = tup
    def bad(what, got, exp):
        raise V(f'identifier:{what}', f'{NS_NAMES[ns]} tuple={tup} code={code}: {what} got {got!r} expected {exp!r}')
    if getattr(ti.namespace, 'value', ti.namespace) != ns or getattr(ti.namespace, 'name', NS_NAMES[ns]) != NS_NAMES[ns]:
        bad('namespace', ti.namespace, ns)
    tv = ti.type_
    tv = tv.value if hasattr(tv, 'value') else tv
    if int(tv) != ty:
        bad('type', ti.type_, ty)
    if bool(ti.has_current_aid) != bool(aid):
        bad('has_current_aid', ti.has_current_aid, aid)
    if bool(ti.has_unique_pid) != bool(upid):
        bad('has_unique_pid', ti.has_unique_pid, upid)
    if bool(ti.has_large_offset) != bool(large):
        bad('has_large_offset', ti.has_large_offset, large)
    if getattr(ti.pc_style, 'value', ti.pc_style) != pc:
        bad('pc_style', ti.pc_style, pc)
    if ti.code != code:
        bad('code', ti.code, code)
    # names: a decoded member must carry the name the format gives to that value / bit
    if hasattr(ti.pc_style, 'name') and ti.pc_style.name != PC_STYLE_NAMES[pc]:
        bad('pc_style-name', ti.pc_style.name, PC_STYLE_NAMES[pc])
    if ns in TYPE_NAMES and hasattr(ti.type_, 'name') and ti.type_.name != TYPE_NAMES[ns][ty]:
        bad('type-name', ti.type_.name, TYPE_NAMES[ns][ty])
    if ns == NS_SIGNPOST and hasattr(type(ti.type_), '__members__'):
        for nm, val in SIGNPOST_TYPE_MEMBERS.items():
            mem = type(ti.type_).__members__.get(nm)
            if mem is None or int(mem.value) != val:
                bad('signpost-type-member', (nm, getattr(mem, 'value', None)), val)
    if ti.flags is not None and hasattr(type(ti.flags), '__members__'):
        table = LOG_FLAG_MEMBERS if ns == NS_LOG else SIGNPOST_FLAG_MEMBERS if ns == NS_SIGNPOST else None
        if table:
            for nm, bit in table.items():
                mem = type(ti.flags).__members__.get(nm)
                if mem is None or int(mem.value) != bit:
                    bad('flag-member', (nm, getattr(mem, 'value', None)), bit)
                if bool(ti.flags & mem) != bool(fl & bit):
                    bad('flag-bit:' + nm, bool(ti.flags & mem), bool(fl & bit))
    if ti.flags is None:
        if ns == NS_LOG:
            bad('flags', None, fl)
    else:
        fv = ti.flags.value if hasattr(ti.flags, 'value') else ti.flags
        if int(fv) != fl:
            bad('flags', ti.flags, fl)


# ----------------------------------------------------------------------------- generator

u = S.u64
uuid16 = st.binary(min_size=16, max_size=16)
tzd = st.fixed_dictionaries({'mw': st.integers(-720, 840), 'dt': st.integers(0, 1)})
date = st.fixed_dictionaries({'sec': st.one_of(st.integers(0, 2 ** 32), st.sampled_from([0, 1, 2 ** 31 - 1, 2 ** 31, 2 ** 32])),
                              'usec': st.one_of(st.integers(0, 999999), st.sampled_from([0, 1, 499999, 500000, 999999]))})

# strings are carried verbatim: also text that is not in a Unicode normal form (decomposed accents as file systems hand
# them out, singletons such as the Angstrom sign, combining marks in non-canonical order, compatibility characters)
UNNORMALIZED = ['e\u0301', 'A\u030a', '\u212b', 'a\u0323\u0302', 'o\u0302\u0323', '\ufb01', '\u2126', 'n\u0303', '\u1100\u1161', '/', 'x', 'Caf', '.app']
text = st.one_of(st.text(st.characters(min_codepoint=0x20, max_codepoint=0x7e), max_size=12),
                 st.text(st.characters(min_codepoint=0x20, max_codepoint=0x2fff, exclude_categories=('Cs', 'Cc')), max_size=8),
                 st.lists(st.sampled_from(UNNORMALIZED), min_size=1, max_size=5).map(''.join),
                 # names that read like numbers (a process may be called '2048'): text stays text
                 st.one_of(st.integers(0, 99999).map(str), st.sampled_from(['0', '1', '007', '-1', '0x10', '\uff11\uff12', '1e3', ' 12', 'None', 'True'])))


def _subset(keys, elems):
    """dict with a generated subset of keys (each key present ~ half of the time)"""
    return st.fixed_dictionaries({}, optional={k: elems[k] for k in keys})


def segment(nstr):
    sidx = st.integers(0, nstr - 1)
    p = st.fixed_dictionaries({'w': u, 'p': u}, optional={
        'rs': sidx, 't': st.lists(sidx, max_size=3), 'tn': sidx, 'ty': sidx})
    a_cat = st.sampled_from([0, 1, 2, 3])
    a = a_cat.flatmap(lambda c: st.fixed_dictionaries({'c': st.just(c)}, optional={
        'a': st.sampled_from([0, 1, 2, 3, 3, 3]), 'p': st.integers(0, 3), 'sc': st.integers(0, 5), 'st': st.integers(0, 9),
        # a scalar's value may happen to equal an id of the string index (ids are positions, or 100 + 7 * position): it stays a number
        'or': (sidx if c == 2 else st.one_of(u, st.binary(max_size=8), st.integers(0, 8), st.integers(100, 150), sidx, sidx.map(lambda i: 100 + 7 * i)))}))
    return st.fixed_dictionaries({}, optional={'lp': sidx, 'p': p, 'a': a})


def decomposed(nstr):
    return st.one_of(
        st.fixed_dictionaries({'pc': st.just(0), 's': st.integers(0, 3)}),
        st.one_of(st.lists(segment(nstr), min_size=0, max_size=4), st.lists(segment(nstr), min_size=2, max_size=4)).flatmap(lambda segs: st.fixed_dictionaries({
            'pc': st.integers(1, 5), 's': st.integers(0, 3), 'seg': st.just(segs)})),
    )


def raw_value_strategies(nstr):
    sidx = st.integers(0, nstr - 1)
    return {
        'ti': st.one_of(st.tuples(identifier_tuple(), S.u32), st.tuples(identifier_tuple(), S.u32), st.just(((0, 0, 0, 0, 0, 0, 0), 0))), 'pip': sidx, 'p': sidx, 'sip': sidx, 'send': sidx, 'sio': u,
        'siu': uuid16, 'lt': st.sampled_from(LOG_TYPES), 'ttl': st.integers(0, 255), 'pid': S.u32, 'aid': u,
        'paid': u, 'tai': u, 'sub': sidx, 'cat': sidx, 'f': sidx, 'cai': u, 'cpui': u, 'si': u, 'sn': sidx,
        'st': st.integers(0, 2), 'ss': st.integers(0, 3), 'lsmct': u, 'lemct': u, 'lsud': date, 'leud': date,
        'lsutz': tzd, 'leutz': tzd,
        'bt': st.lists(st.fixed_dictionaries({'iu': uuid16, 'io': u}), max_size=4),
        'lc': st.fixed_dictionaries({'c': u, 's': u}), 'dm': decomposed(nstr),
    }


def mandatory_strategies(nstr, tids=None):
    return {'cm': st.integers(0, nstr - 1), 't': st.integers(0, 0x1000), 's': st.integers(0, 0x10000),
            'tid': (st.one_of(st.sampled_from(tids), u) if tids else st.one_of(st.just(0), u)), 'ns': u, 'mct': u,
            'b': uuid16, 'piu': uuid16, 'ud': date, 'utz': tzd}


def string_table():
    """list of (index, text): distinct indexes (0 always used), distinct texts"""
    def build(t):
        texts, perm_seed = t
        n = len(texts)
        idx = list(range(n))
        # spread some indexes out, keep 0
        idx = [i if (perm_seed >> i) & 1 == 0 else 100 + 7 * i for i in idx]
        return [[i, s] for i, s in zip(idx, texts)]
    return st.tuples(st.lists(text, min_size=2, max_size=8, unique=True), st.integers(0, 255)).map(build)


def raw_record(table, keyset=None, tids=None):
    """strategy of a raw record over string table `table`; indexes are *positions* resolved at build time.
    In 'ti' the value is ((tuple), code) and is packed by realize()."""
    n = len(table)
    opt = raw_value_strategies(n)
    man = mandatory_strategies(n, tids)
    def share(rec):
        # a record whose zones are all the same zone may hold ONE zone object referenced three times (this is what reading
        # a binary plist gives): the values are what counts, not whether the dicts are distinct objects
        if rec['utz']['mw'] % 3 == 0:
            for k in ('lsutz', 'leutz'):
                if k in rec:
                    rec[k] = rec['utz']
        return rec
    if keyset is None:
        return st.fixed_dictionaries(man, optional=opt).map(share)
    return st.fixed_dictionaries({**man, **{k: opt[k] for k in keyset}}).map(share)


def realize(rec, table):
    """abstract record (string positions, identifier tuples) -> the raw dict as stored in the dump"""
    idx = [t[0] for t in table]
    out = copy.deepcopy(rec)

    def s(i):
        return idx[i]
    out['cm'] = s(out['cm'])
    for k in ('pip', 'p', 'sip', 'send', 'sub', 'cat', 'f', 'sn'):
        if k in out:
            out[k] = s(out[k])
    if 'ti' in out:
        tup, code = out['ti']
        out['ti'] = kmodel.firehose_id(*tup, code)
    if 'dm' in out:
        for seg in out['dm'].get('seg', []):
            if 'lp' in seg:
                seg['lp'] = s(seg['lp'])
            if 'p' in seg:
                for k in ('rs', 'tn', 'ty'):
                    if k in seg['p']:
                        seg['p'][k] = s(seg['p'][k])
                if 't' in seg['p']:
                    seg['p']['t'] = [s(i) for i in seg['p']['t']]
            if 'a' in seg and 'or' in seg['a'] and seg['a']['c'] == 2:
                seg['a']['or'] = s(seg['a']['or'])
    return out


# ----------------------------------------------------------------------------- expectation

def expected_instant(ud):
    return datetime(1970, 1, 1, tzinfo=timezone.utc) + timedelta(seconds=ud['sec'], microseconds=ud['usec'])


def check_decoded(ev, rec, table, V):
    """ev: decoded OsLogEvent; rec: abstract record; raises V(signature, message) on mismatch"""
    strs = [t[1] for t in table]

    def bad(field, got, exp):
        raise V(f'log-field:{field}', f'{field}: got {got!r} expected {exp!r} keys={sorted(rec)}')

    def eq(field, exp):
        got = getattr(ev, field, '<<missing attribute>>')
        if got != exp or (type(got) is not type(exp) and not isinstance(exp, (int, str))):
            bad(field, got, exp)

    eq('composed_message', strs[rec['cm']])
    eq('type_', rec['t'])
    eq('size', rec['s'])
    eq('thread_identifier', rec['tid'])
    eq('continuous_nanoseconds_since_boot', rec['ns'])
    eq('mach_continuous_timestamp', rec['mct'])
    eq('boot_uuid', rec['b'])
    eq('process_image_uuid', rec['piu'])
    got = ev.unix_date
    exp = expected_instant(rec['ud'])
    if not isinstance(got, datetime) or got.utcoffset() != timedelta(0) or abs(got - exp) > timedelta(microseconds=1):
        bad('unix_date', got, exp)
    eq('unix_timezone', {'minutes_west': rec['utz']['mw'], 'dst_time': rec['utz']['dt']})
    for k, (field, kind) in OPTIONAL.items():
        if k not in rec:
            eq(field, DEFAULTS[field])
            continue
        v = rec[k]
        if kind == 'raw':
            eq(field, v)
        elif kind == 'str':
            eq(field, strs[v])
        elif kind == 'tz':
            eq(field, {'minutes_west': v['mw'], 'dst_time': v['dt']})
        elif kind == 'bt':
            eq(field, [{'image_uuid': l['iu'], 'image_offset': l['io']} for l in v])
        elif kind == 'lc':
            eq(field, {'count': v['c'], 'unknown': v['s']})
        elif kind == 'lt':
            got = getattr(ev, field, None)
            if getattr(got, 'value', None) != v:
                bad(field, got, v)
        elif kind == 'ti':
            got = getattr(ev, field, None)
            if got is None:
                bad(field, None, v)
            check_identifier(got, tuple(v[0]), v[1], V)
        elif kind == 'dm':
            check_dm(getattr(ev, field, None), v, strs, bad)


def check_dm(got, dm, strs, bad):
    if not isinstance(got, dict):
        bad('decomposed_message', got, dm)
    if got.get('placeholder_count') != dm['pc'] or got.get('state') != dm['s']:
        bad('decomposed_message.header', got, dm)
    extra = set(got) - {'placeholder_count', 'state', 'segments'}
    if extra:
        bad('decomposed_message.keys', sorted(got), 'placeholder_count/state/segments')
    if dm['pc'] == 0:
        return
    segs = got.get('segments')
    if not isinstance(segs, list) or len(segs) != len(dm['seg']):
        bad('decomposed_message.segments', segs, dm['seg'])
    for g, s in zip(segs, dm['seg']):
        exp_req, exp_opt = {}, {}
        if 'lp' in s:
            exp_req['literal_prefix'] = strs[s['lp']]
        if 'p' in s:
            p = s['p']
            ph = {'width': p['w'], 'precision': p['p']}
            if 'rs' in p:
                ph['raw_string'] = strs[p['rs']]
            if p.get('t'):
                ph['tokens'] = [strs[i] for i in p['t']]
            if 'tn' in p:
                ph['type_namespace'] = strs[p['tn']]
            if 'ty' in p:
                ph['type'] = strs[p['ty']]
            exp_req['placeholder'] = ph
        if set(g) != set(exp_req) | ({'arg'} if 'a' in s else set()):
            bad('segment.keys', g, s)
        for k, v in exp_req.items():
            gv = g[k]
            if k == 'placeholder' and 't' in s['p'] and not s['p']['t'] and gv.get('tokens') == []:
                gv = {kk: vv for kk, vv in gv.items() if kk != 'tokens'}   # empty token list shown or omitted
            if gv != v:
                bad('segment.' + k, g[k], v)
        if 'a' in s:
            a = s['a']
            ga = g['arg']
            req = {'category': a['c']}
            opt = {}
            if 'a' in a:
                req['availability'] = a['a']
            if 'p' in a:
                req['privacy'] = a['p']
            for src, dst in (('sc', 'scalar_category'), ('st', 'scalar_type')):
                if src in a:
                    (req if a['c'] == 1 else opt)[dst] = a[src]
            if 'or' in a:
                val = strs[a['or']] if a['c'] == 2 else a['or']
                (req if ('a' not in a or a['a'] == 3) else opt)['object_representation'] = val
            for k, v in req.items():
                if k not in ga or ga[k] != v:
                    bad('segment.arg.' + k, ga, a)
            for k, v in ga.items():
                if k in req:
                    continue
                if k not in opt or opt[k] != v:
                    bad('segment.arg.' + k, ga, a)
